#!/bin/sh
# Builds the framework tools from files on disk only (offline) and warms the Go
# build cache (race-enabled standard library, engine dependencies).
set -e
cd "$(dirname "$0")"
export GOFLAGS=-mod=mod GOPROXY=off GOSUMDB=off GOTOOLCHAIN=local
mkdir -p bin evidence replays
(cd sim && go build -o ../bin/simrewrite ./cmd/simrewrite)
# warm-up: throw-away runs that compile everything the checks share (race-enabled standard library with the Pool
# overlay, goa's dependencies, the engines, the design tools) INTO the main build cache; the checks themselves
# build into private hard-link copies of it (orch.private_gocache) and leave it as it is
export VERIF_WARM=1 VERIF_EVIDENCE_DIR=/tmp/verif-warm-evidence VERIF_REPLAY_DIR=/tmp/verif-warm-replays
VERIF_RUNS=32 ./check C16 quick >/dev/null 2>&1 || true
VERIF_RUNS=64 VERIF_DESIGNS=4 ./check C02 quick >/dev/null 2>&1 || true
VERIF_RUNS=64 VERIF_DESIGNS=4 ./check C20 quick >/dev/null 2>&1 || true
./check C09 quick >/dev/null 2>&1 || true
rm -rf /tmp/verif-warm-evidence /tmp/verif-warm-replays
echo setup ok
