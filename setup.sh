#!/bin/sh
# Builds the framework tools from files on disk only (offline) and warms the Go
# build cache (race-enabled standard library, engine dependencies).
set -e
cd "$(dirname "$0")"
export GOFLAGS=-mod=mod GOPROXY=off GOSUMDB=off GOTOOLCHAIN=local
mkdir -p bin evidence replays
(cd sim && go build -o ../bin/simrewrite ./cmd/simrewrite)
# warm-up: a throw-away quick run of the cheapest check builds everything once
VERIF_RUNS=32 ./check C16 quick >/dev/null 2>&1 || true
echo setup ok
