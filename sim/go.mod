module verif/sim

go 1.23

require (
	goa.design/goa/v3 v3.0.0
	golang.org/x/tools v0.26.0
)

require (
	golang.org/x/mod v0.21.0 // indirect
	golang.org/x/sync v0.8.0 // indirect
)

replace goa.design/goa/v3 => /repo
