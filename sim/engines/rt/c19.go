package main

import (
	"bytes"
	"io"
	"context"
	"crypto/sha256"
	"encoding/base64"
	"encoding/hex"
	"fmt"
	"net/http"
	"regexp"
	"strings"
	"time"
	"unicode/utf8"

	grpcmw "goa.design/goa/v3/grpc/middleware"
	httpmw "goa.design/goa/v3/http/middleware"
	"goa.design/goa/v3/middleware"
	"goa.design/goa/v3/verifsim"
	"google.golang.org/grpc"
	"google.golang.org/grpc/metadata"
	"verif/sim/engine"
	"verif/sim/simnet"
)

// C19: chains of simulated nodes. Node i = RequestID -> Trace -> handler that
// records its context and calls node i+1 through a traced client over SimNet
// (HTTP) or through the gRPC interceptors with a metadata hop. Several chains
// are interleaved by the scheduler and share the nodes.

type c19node struct {
	Trust     bool   `json:"trust"`
	Header    string `json:"header,omitempty"` // custom header (HTTP only)
	Limit     int    `json:"limit"`
	Sampling  int    `json:"sampling"` // percent, or -1 adaptive
	MaxRate   int    `json:"max_rate,omitempty"`
	SampleSz  int    `json:"sample_size,omitempty"`
	Discard   bool     `json:"discard"`  // the node discards some paths / methods from tracing
	Discards  []string `json:"discards"` // its own discard patterns (every node has its own list: options are per middleware)
	CustomIDs bool   `json:"custom_ids"` // TraceIDFunc/SpanIDFunc options
	ForwardID bool   `json:"forward_request_id"`
	ForwardMD bool   `json:"forward_inbound_metadata"` // proxy pattern: inbound headers/metadata are copied to the outbound call

	handler http.Handler
	unary   func(ctx context.Context, info *grpc.UnaryServerInfo, h grpc.UnaryHandler) (any, error)
	stream  func(ss grpc.ServerStream, info *grpc.StreamServerInfo, h grpc.StreamHandler) error
	idSeq   int
}

type c19hop struct {
	Chain, Node int
	Path        string
	InRID       string
	HasRID      bool
	InTrace     string
	InParent    string
	RID         string
	HasRIDCtx   bool
	Trace       string
	Span        string
	Parent      string
	Traced      bool
	MDRID       string // grpc: x-request-id metadata seen by the handler
	EntropyFrom int    // index into SimRand.Fresh before this hop's middlewares ran
	EntropyTo   int
}

type c19chain struct {
	ID      int
	Variant string // http | grpc-unary | grpc-stream
	Depth   int
	Path    string
	RID     string
	HasRID  bool
	Trace   string
	Parent  string
	hops    []*c19hop
	errs    []string
	idSeq   int
}

type fakeStream struct {
	ctx context.Context
}

func (f *fakeStream) SetHeader(metadata.MD) error  { return nil }
func (f *fakeStream) SendHeader(metadata.MD) error { return nil }
func (f *fakeStream) SetTrailer(metadata.MD)       {}
func (f *fakeStream) Context() context.Context     { return f.ctx }
func (f *fakeStream) SendMsg(any) error            { return nil }
func (f *fakeStream) RecvMsg(any) error            { return nil }

func ridValue(t *verifsim.Tape) (string, bool) {
	switch t.Draw("rid", 8) {
	case 0, 1:
		return "", false
	case 2:
		return "", true // present but empty
	case 3:
		return "abc", true
	case 4:
		return strings.Repeat("x", 1+t.Draw("ridlen", 40)), true
	case 5:
		return "é世界😀" + nstr(t, letdig, 0, 6), true
	case 6:
		return nstr(t, letdig, 1, 12) + "ß世" + nstr(t, letdig, 0, 4), true
	default:
		return nstr(t, letdig+"-_.", 1, 24), true
	}
}

func init() { engine.Register("C19", runC19) }

func runC19(t *verifsim.Tape, cfg engine.Config) *engine.Outcome {
	o := &engine.Outcome{Features: map[string]int{}}
	switch t.Pick("mode", 6, 2, 2) {
	case 1:
		return runC19Capture(t, cfg, o)
	case 2:
		return runC19Adaptive(t, cfg, o)
	}
	h := sha256.New()
	sim := verifsim.NewSim(t)
	sim.Strategy = verifsim.Strategy(t.Draw("strategy", 4))
	nNodes := 1 + t.Draw("nodes", 4)
	nodes := make([]*c19node, nNodes)
	nets := make([]*simnet.Net, nNodes)
	curChain := func(ctx context.Context) *c19chain { c, _ := ctx.Value(chainKey{}).(*c19chain); return c }
	for i := range nodes {
		n := &c19node{Trust: t.Draw("trust", 2) == 0, Limit: []int{0, 0, 1, 2, 3, 5, 8, 16, 64}[t.Draw("limit", 9)],
			Discard: t.Draw("discard", 2) == 0, CustomIDs: t.Draw("customids", 2) == 0, ForwardID: t.Draw("fwd", 2) == 0, ForwardMD: t.Draw("fwdmd", 3) == 0}
		switch t.Draw("samp", 6) {
		case 0, 1:
			n.Sampling = 0
		case 2, 3:
			n.Sampling = 100
		case 4:
			n.Sampling = 1 + t.Draw("pct", 99)
		default:
			n.Sampling, n.MaxRate, n.SampleSz = -1, 1+t.Draw("rate", 20), 1+t.Draw("ssz", 5)
		}
		if n.Trust && t.Draw("customhdr", 3) == 0 {
			n.Header = "X-Corr-" + nstr(t, letters, 2, 4)
		}
		nodes[i] = n
	}
	// build the middleware stacks (setup goroutine); constructors that read the
	// clock see the simulation's start time
	t0 := sim.Clock.Time()
	verifsim.SetIdleClock(&t0)
	defer verifsim.SetIdleClock(nil)
	for i, n := range nodes {
		i, n := i, n
		var ropts []middleware.RequestIDOption
		if n.Header != "" {
			ropts = append(ropts, httpmw.RequestIDHeaderOption(n.Header))
		} else if n.Trust {
			ropts = append(ropts, httpmw.UseXRequestIDHeaderOption(true))
		}
		if n.Limit > 0 {
			ropts = append(ropts, httpmw.XRequestHeaderLimitOption(n.Limit))
		}
		var gropts []middleware.RequestIDOption
		if n.Trust {
			gropts = append(gropts, grpcmw.UseXRequestIDMetadataOption(true))
		}
		if n.Limit > 0 {
			gropts = append(gropts, grpcmw.XRequestMetadataLimitOption(n.Limit))
		}
		var topts []middleware.TraceOption
		if n.Sampling >= 0 {
			topts = append(topts, middleware.SamplingPercent(n.Sampling))
		} else {
			topts = append(topts, middleware.MaxSamplingRate(n.MaxRate), middleware.SampleSize(n.SampleSz))
		}
		if n.Discard {
			pool := []string{`health`, `^/work$`, `/a/`, `(?i)LIVEZ`}
			off := t.Draw("discard-off", len(pool))
			for k := 0; k < 1+t.Draw("discard-n", 2); k++ {
				n.Discards = append(n.Discards, pool[(off+k)%len(pool)])
			}
			for _, p := range n.Discards {
				topts = append(topts, middleware.DiscardFromTrace(regexp.MustCompile(p)))
			}
		}
		if n.CustomIDs {
			topts = append(topts,
				middleware.TraceIDFunc(func() string { return customID("T", i) }),
				middleware.SpanIDFunc(func() string { return customID("S", i) }))
		}
		record := func(ctx context.Context, hop *c19hop) {
			if v := ctx.Value(middleware.RequestIDKey); v != nil {
				hop.RID, hop.HasRIDCtx = v.(string), true
			}
			if v := ctx.Value(middleware.TraceIDKey); v != nil {
				hop.Trace, hop.Traced = v.(string), true
			}
			if v := ctx.Value(middleware.TraceSpanIDKey); v != nil {
				hop.Span = v.(string)
			}
			if v := ctx.Value(middleware.TraceParentSpanIDKey); v != nil {
				hop.Parent = v.(string)
			}
			hop.EntropyTo = len(sim.Rand.Fresh)
		}
		// ---- HTTP stack
		inner := http.HandlerFunc(func(w http.ResponseWriter, r *http.Request) {
			ch := curChain(r.Context())
			hop := ch.hops[len(ch.hops)-1]
			record(r.Context(), hop)
			if i+1 < ch.Depth && i+1 < len(nodes) {
				req, _ := http.NewRequestWithContext(r.Context(), "GET", "http://n"+fmt.Sprint(i+1)+ch.Path, nil)
				if n.ForwardMD {
					for k, vs := range r.Header {
						if k != "Content-Length" && k != "Host" {
							req.Header[k] = append([]string(nil), vs...)
						}
					}
				}
				if n.ForwardID {
					name := "X-Request-Id"
					if nodes[i+1].Header != "" {
						name = nodes[i+1].Header
					}
					req.Header.Set(name, hop.RID)
				}
				req.Header.Set("X-Sim-Chain", fmt.Sprintf("c%d", ch.ID))
				resp, err := httpmw.WrapDoer(nets[i+1]).Do(req)
				if err != nil {
					ch.errs = append(ch.errs, err.Error())
				} else if resp.StatusCode != 204 {
					ch.errs = append(ch.errs, fmt.Sprintf("downstream status %d", resp.StatusCode))
				}
			}
			w.WriteHeader(204)
		})
		n.handler = httpmw.RequestID(ropts...)(httpmw.Trace(topts...)(inner))
		nets[i] = &simnet.Net{Tape: t, Cfg: simnet.Config{Yields: true, HeaderNoise: 300, Chunking: true}}
		nets[i].ServerCtx = func(ex *simnet.Exchange) context.Context { return context.Background() }
		nets[i].Handler = http.HandlerFunc(func(w http.ResponseWriter, r *http.Request) {
			// the transport knows which chain a connection belongs to (the id
			// travels in a header the middlewares do not look at)
			ch := chainByTag(r.Header.Get("X-Sim-Chain"))
			hop := &c19hop{Chain: ch.ID, Node: i, Path: r.URL.Path, InTrace: r.Header.Get(httpmw.TraceIDHeader), InParent: r.Header.Get(httpmw.ParentSpanIDHeader), EntropyFrom: len(sim.Rand.Fresh)}
			name := "X-Request-Id"
			if n.Header != "" {
				name = n.Header
			}
			if vs, ok := r.Header[http.CanonicalHeaderKey(name)]; ok && len(vs) > 0 {
				hop.InRID, hop.HasRID = vs[0], true
			}
			ch.hops = append(ch.hops, hop)
			n.handler.ServeHTTP(w, r.WithContext(context.WithValue(r.Context(), chainKey{}, ch)))
		})
		// ---- gRPC stack
		uRID, uTrace := grpcmw.UnaryRequestID(gropts...), grpcmw.UnaryServerTrace(topts...)
		sRID, sTrace := grpcmw.StreamRequestID(gropts...), grpcmw.StreamServerTrace(topts...)
		next := func(ctx context.Context, ch *c19chain, hop *c19hop, variant string) {
			record(ctx, hop)
			if md, ok := metadata.FromIncomingContext(ctx); ok {
				hop.MDRID = grpcmw.MetadataValue(md, grpcmw.RequestIDMetadataKey)
			}
			if i+1 < ch.Depth && i+1 < len(nodes) {
				octx := ctx
				if n.ForwardMD {
					if in, ok := metadata.FromIncomingContext(ctx); ok {
						octx = metadata.NewOutgoingContext(octx, in.Copy())
					}
				}
				if n.ForwardID {
					octx = metadata.AppendToOutgoingContext(octx, grpcmw.RequestIDMetadataKey, hop.RID)
				}
				invoke := func(ctx context.Context) error {
					verifsim.Yield("grpc-hop")
					md, _ := metadata.FromOutgoingContext(ctx)
					return callGRPC(nodes[i+1], i+1, ch, md.Copy(), variant, sim)
				}
				var err error
				if variant == "grpc-unary" {
					err = grpcmw.UnaryClientTrace()(octx, "/svc"+ch.Path, nil, nil, nil, func(ctx context.Context, method string, req, reply any, cc *grpc.ClientConn, opts ...grpc.CallOption) error {
						return invoke(ctx)
					})
				} else {
					_, err = grpcmw.StreamClientTrace()(octx, &grpc.StreamDesc{}, nil, "/svc"+ch.Path, func(ctx context.Context, desc *grpc.StreamDesc, cc *grpc.ClientConn, method string, opts ...grpc.CallOption) (grpc.ClientStream, error) {
						return nil, invoke(ctx)
					})
				}
				if err != nil {
					ch.errs = append(ch.errs, err.Error())
				}
			}
		}
		n.unary = func(ctx context.Context, info *grpc.UnaryServerInfo, _ grpc.UnaryHandler) (any, error) {
			ch := curChain(ctx)
			hop := ch.hops[len(ch.hops)-1]
			return uRID(ctx, nil, info, func(ctx context.Context, req any) (any, error) {
				return uTrace(ctx, req, info, func(ctx context.Context, req any) (any, error) {
					next(ctx, ch, hop, "grpc-unary")
					return nil, nil
				})
			})
		}
		n.stream = func(ss grpc.ServerStream, info *grpc.StreamServerInfo, _ grpc.StreamHandler) error {
			ch := curChain(ss.Context())
			hop := ch.hops[len(ch.hops)-1]
			return sRID(nil, ss, info, func(srv any, ss grpc.ServerStream) error {
				return sTrace(srv, ss, info, func(srv any, ss grpc.ServerStream) error {
					next(ss.Context(), ch, hop, "grpc-stream")
					return nil
				})
			})
		}
	}
	// chains
	nChains := 1 + t.Pick("chains", 3, 3, 2)
	chains := make([]*c19chain, nChains)
	chainTags = map[string]*c19chain{}
	parity := t.Draw("parity", 3) == 0 // same inputs through HTTP and gRPC, compared hop by hop
	for i := range chains {
		c := &c19chain{ID: i, Variant: []string{"http", "http", "grpc-unary", "grpc-stream"}[t.Draw("variant", 4)], Depth: 1 + t.Draw("depth", nNodes)}
		c.Path = []string{"/work", "/health", "/a/b", "/livez"}[t.Draw("path", 4)]
		c.RID, c.HasRID = ridValue(t)
		if t.Draw("intrace", 3) == 0 {
			c.Trace = "IN-T" + fmt.Sprint(i)
			if t.Draw("inparent", 2) == 0 {
				c.Parent = "IN-P" + fmt.Sprint(i)
			}
		}
		if parity && i > 0 {
			// chain i replays chain 0's inputs over another transport
			c0 := chains[0]
			c.Depth, c.Path, c.RID, c.HasRID, c.Trace, c.Parent = c0.Depth, c0.Path, c0.RID, c0.HasRID, c0.Trace, c0.Parent
			if c0.Variant == "http" {
				c.Variant = []string{"grpc-unary", "grpc-stream"}[t.Draw("pvariant", 2)]
			} else {
				c.Variant = "http"
			}
		}
		chains[i] = c
		chainTags[fmt.Sprintf("c%d", i)] = c
	}
	for _, c := range chains {
		c := c
		sim.Spawn(fmt.Sprintf("chain%d", c.ID), c, func() {
			if c.Variant == "http" {
				req, _ := http.NewRequest("GET", "http://n0"+c.Path, nil)
				if c.HasRID {
					name := "X-Request-Id"
					if nodes[0].Header != "" {
						name = nodes[0].Header
					}
					req.Header[http.CanonicalHeaderKey(name)] = []string{c.RID}
				}
				if c.Trace != "" {
					req.Header.Set(httpmw.TraceIDHeader, c.Trace)
				}
				if c.Parent != "" {
					req.Header.Set(httpmw.ParentSpanIDHeader, c.Parent)
				}
				req.Header.Set("X-Sim-Chain", fmt.Sprintf("c%d", c.ID))
				if _, err := (&chainDoer{nets[0], c}).Do(req); err != nil {
					c.errs = append(c.errs, err.Error())
				}
			} else {
				md := metadata.MD{}
				if c.HasRID {
					md.Set(grpcmw.RequestIDMetadataKey, c.RID)
				}
				if c.Trace != "" {
					md.Set(grpcmw.TraceIDMetadataKey, c.Trace)
				}
				if c.Parent != "" {
					md.Set(grpcmw.ParentSpanIDMetadataKey, c.Parent)
				}
				if err := callGRPC(nodes[0], 0, c, md, c.Variant, sim); err != nil {
					c.errs = append(c.errs, err.Error())
				}
			}
		})
	}
	// downstream HTTP hops must carry the chain tag too
	for i := range nets {
		nets[i] = nets[i]
	}
	sim.Run()
	o.Steps, o.SchedHash, o.Tainted = sim.Steps, fmt.Sprintf("%016x", sim.ScheduleHash()), sim.Tainted()
	if sim.Deadlock {
		o.Violate("deadlock", "deadlock", "deadlock after %d steps", sim.Steps)
	}
	for i, st := range sim.Tasks() {
		if st.Panic != nil {
			o.Violate("panic", "panic:"+firstLine(fmt.Sprint(st.Panic)), "chain %d panicked: %v\n%s", i, st.Panic, st.Stack)
		}
	}
	// ---- oracle ---------------------------------------------------------------
	fresh := func(id string, hop *c19hop) bool {
		for k := hop.EntropyFrom; k < hop.EntropyTo && k < len(sim.Rand.Fresh); k++ {
			if sim.Rand.FreshBy[k] == hop.Chain && base64.RawURLEncoding.EncodeToString(sim.Rand.Fresh[k]) == id {
				return true
			}
		}
		return false
	}
	for _, c := range chains {
		if len(c.errs) > 0 {
			o.Violate("chain_error", "chain_error", "chain %d (%s): %v", c.ID, c.Variant, c.errs)
		}
		o.Features["chains_"+c.Variant]++
		o.Features["hops"] += len(c.hops)
		if len(c.hops) != min(c.Depth, nNodes) && len(c.errs) == 0 && !sim.Tainted() {
			o.Violate("chain_incomplete", "chain_incomplete", "chain %d: %d hops, depth %d", c.ID, len(c.hops), c.Depth)
		}
		for k, hop := range c.hops {
			n := nodes[hop.Node]
			fmt.Fprintf(h, "%d.%d:%s|%s|%s|%s;", c.ID, k, hop.RID, hop.Trace, hop.Span, hop.Parent)
			sigv := c.Variant
			// request id
			if !hop.HasRIDCtx || hop.RID == "" {
				o.Violate("request_id_empty", "request_id_empty:"+sigv, "chain %d hop %d (%s): no request id in context", c.ID, k, c.Variant)
				continue
			}
			trusted := n.Trust && hop.HasRID && hop.InRID != ""
			if trusted {
				o.Features["rid_trusted"]++
				want := hop.InRID
				ok := hop.RID == want
				if n.Limit > 0 && len(want) > n.Limit {
					o.Features["rid_truncated"]++
					if !utf8.ValidString(want[:n.Limit]) {
						o.Features["rid_truncated_inside_rune"]++
					}
					// "truncated to the configured limit": a prefix of the inbound value no
					// longer than the limit, counted in bytes or in characters
					rs := []rune(want)
					okBytes := hop.RID == want[:n.Limit]
					okRunes := len(rs) > n.Limit && hop.RID == string(rs[:n.Limit])
					ok = okBytes || okRunes
				}
				if !ok {
					o.Violate("request_id_not_inbound", fmt.Sprintf("request_id_not_inbound:%s:limit=%v", sigv, n.Limit > 0), "chain %d hop %d (%s): inbound %q limit %d, context has %q", c.ID, k, c.Variant, hop.InRID, n.Limit, hop.RID)
				}
			} else {
				o.Features["rid_fresh"]++
				if !fresh(hop.RID, hop) {
					o.Violate("request_id_not_fresh", "request_id_not_fresh:"+sigv, "chain %d hop %d (%s): trust=%v inbound=%q(present=%v) but context id %q was not generated for this request", c.ID, k, c.Variant, n.Trust, hop.InRID, hop.HasRID, hop.RID)
				}
			}
			if c.Variant != "http" && hop.MDRID != hop.RID {
				o.Violate("request_id_metadata", "request_id_metadata", "chain %d hop %d: metadata x-request-id %q, context %q", c.ID, k, hop.MDRID, hop.RID)
			}
			// trace
			isFresh := func(id string, prefix string) bool {
				if n.CustomIDs {
					return strings.HasPrefix(id, fmt.Sprintf("%s-n%d-", prefix, hop.Node))
				}
				return fresh(id, hop)
			}
			discarded := false
			subject := hop.Path // what the patterns are matched against: the URL path, or the gRPC full method
			if strings.HasPrefix(c.Variant, "grpc") {
				subject = "/svc" + hop.Path
			}
			for _, p := range n.Discards {
				discarded = discarded || regexp.MustCompile(p).MatchString(subject)
			}
			if hop.InTrace != "" {
				o.Features["trace_inbound"]++
				if !hop.Traced || hop.Trace != hop.InTrace {
					o.Violate("trace_id_not_kept", "trace_id_not_kept:"+sigv, "chain %d hop %d (%s): inbound trace %q, context %q", c.ID, k, c.Variant, hop.InTrace, hop.Trace)
					continue
				}
				if hop.Parent != hop.InParent {
					o.Violate("parent_span", "parent_span:"+sigv, "chain %d hop %d (%s): caller span %q, recorded parent %q", c.ID, k, c.Variant, hop.InParent, hop.Parent)
				}
				if !isFresh(hop.Span, "S") || hop.Span == hop.Parent {
					o.Violate("span_not_fresh", "span_not_fresh:"+sigv, "chain %d hop %d (%s): span %q parent %q", c.ID, k, c.Variant, hop.Span, hop.Parent)
				}
			} else {
				switch {
				case n.Sampling == 0 || discarded:
					o.Features["trace_must_not_start"]++
					if hop.Traced {
						o.Violate("trace_started", fmt.Sprintf("trace_started:%s:sampling=%d,discarded=%v", sigv, n.Sampling, discarded), "chain %d hop %d (%s): sampling %d discarded=%v path %q but a trace %q was started", c.ID, k, c.Variant, n.Sampling, discarded, hop.Path, hop.Trace)
					}
				case n.Sampling == 100:
					o.Features["trace_must_start"]++
					if !hop.Traced {
						o.Violate("trace_not_started", "trace_not_started:"+sigv, "chain %d hop %d (%s): sampling 100, path %q, no trace started", c.ID, k, c.Variant, hop.Path)
					} else if !isFresh(hop.Trace, "T") || !isFresh(hop.Span, "S") || hop.Parent != "" {
						o.Violate("trace_ids_not_fresh", "trace_ids_not_fresh:"+sigv, "chain %d hop %d (%s): trace %q span %q parent %q", c.ID, k, c.Variant, hop.Trace, hop.Span, hop.Parent)
					}
				default:
					o.Features["trace_sampled_unconstrained"]++
				}
			}
			// propagation to the next hop
			if k+1 < len(c.hops) {
				nx := c.hops[k+1]
				if hop.Traced {
					o.Features["propagation_checked"]++
					if nx.InTrace != hop.Trace || nx.InParent != hop.Span {
						o.Violate("propagation", "propagation:"+sigv, "chain %d hop %d->%d (%s): sent trace %q span %q, downstream received trace %q parent %q", c.ID, k, k+1, c.Variant, hop.Trace, hop.Span, nx.InTrace, nx.InParent)
					}
				} else if nx.InTrace != "" {
					o.Violate("propagation", "propagation-untraced:"+sigv, "chain %d hop %d untraced but downstream received trace %q", c.ID, k, nx.InTrace)
				}
			}
		}
	}
	// parity between transports on the same inputs (fixed sampling only)
	if parity && len(chains) > 1 {
		a := chains[0]
		for _, b := range chains[1:] {
			for k := 0; k < len(a.hops) && k < len(b.hops); k++ {
				ha, hb := a.hops[k], b.hops[k]
				n := nodes[ha.Node]
				if n.Header != "" || n.Sampling < 0 || (n.Sampling > 0 && n.Sampling < 100) {
					break // transports legitimately differ: custom header name, sampled decisions
				}
				o.Features["parity_hops"]++
				trustedA := n.Trust && ha.HasRID && ha.InRID != ""
				if trustedA && ha.InRID == hb.InRID && ha.RID != hb.RID {
					o.Violate("parity_request_id", "parity_request_id", "hop %d: %s has request id %q, %s has %q for the same inbound %q", k, a.Variant, ha.RID, b.Variant, hb.RID, ha.InRID)
				}
				// (a discard pattern is matched against the URL path over HTTP and against the full method over gRPC:
				// where the node's patterns judge the two subjects differently the transports legitimately differ)
				dv := func(subject string) bool {
					for _, p := range n.Discards {
						if regexp.MustCompile(p).MatchString(subject) {
							return true
						}
					}
					return false
				}
				if dv(ha.Path) != dv("/svc"+ha.Path) {
					continue
				}
				if ha.InTrace == hb.InTrace && ha.Traced != hb.Traced {
					o.Violate("parity_traced", "parity_traced", "hop %d: %s traced=%v, %s traced=%v (sampling %d, path %q)", k, a.Variant, ha.Traced, b.Variant, hb.Traced, n.Sampling, ha.Path)
					break
				}
			}
		}
	}
	o.Nontrivial = true
	o.Distinct = hex.EncodeToString(h.Sum(nil))[:12] + o.SchedHash
	o.Digest = o.Distinct
	o.SimSeconds = 0
	o.Sample = map[string]any{"nodes": nodes, "chains": chains, "hops": func() (r []c19hop) {
		for _, c := range chains {
			for _, hp := range c.hops {
				r = append(r, *hp)
			}
		}
		return
	}()}
	return o
}

// customID is a goroutine-safe user ID function: the counter lives in the
// calling task's own chain.
func customID(prefix string, node int) string {
	c := verifsim.CurTask().Local.(*c19chain)
	c.idSeq++
	return fmt.Sprintf("%s-n%d-c%d-%d", prefix, node, c.ID, c.idSeq)
}

type chainKey struct{}

var chainTags map[string]*c19chain

func chainByTag(s string) *c19chain { return chainTags[s] }

// chainDoer is the entry client.
type chainDoer struct {
	n *simnet.Net
	c *c19chain
}

func (d *chainDoer) Do(r *http.Request) (*http.Response, error) { return d.n.Do(r) }

func callGRPC(n *c19node, idx int, ch *c19chain, md metadata.MD, variant string, sim *verifsim.Sim) error {
	hop := &c19hop{Chain: ch.ID, Node: idx, Path: ch.Path, InTrace: grpcmw.MetadataValue(md, grpcmw.TraceIDMetadataKey),
		InParent: grpcmw.MetadataValue(md, grpcmw.ParentSpanIDMetadataKey), EntropyFrom: len(sim.Rand.Fresh)}
	if vs := md.Get(grpcmw.RequestIDMetadataKey); len(vs) > 0 {
		hop.InRID, hop.HasRID = vs[0], true
	}
	ch.hops = append(ch.hops, hop)
	ctx := metadata.NewIncomingContext(context.WithValue(context.Background(), chainKey{}, ch), md)
	if variant == "grpc-unary" {
		_, err := n.unary(ctx, &grpc.UnaryServerInfo{FullMethod: "/svc" + ch.Path}, nil)
		return err
	}
	return n.stream(&fakeStream{ctx}, &grpc.StreamServerInfo{FullMethod: "/svc" + ch.Path}, nil)
}

// ---------------------------------------------------------------------------
// ResponseCapture under writer faults
// ---------------------------------------------------------------------------

func runC19Capture(t *verifsim.Tape, cfg engine.Config, o *engine.Outcome) *engine.Outcome {
	h := sha256.New()
	n := 10
	var samples []map[string]any
	for i := 0; i < n; i++ {
		explicit := t.Draw("explicit-status", 3) != 0
		status := []int{200, 201, 204, 301, 400, 404, 500, 503}[t.Draw("status", 8)]
		nChunks := t.Draw("chunks", 4)
		if status == 204 || status == 301 {
			nChunks = 0
		}
		chunks := make([][]byte, nChunks)
		for k := range chunks {
			chunks[k] = []byte(nstr(t, letdig, 0, 40))
		}
		how := make([]int, nChunks)
		for k := range how {
			how[k] = t.Pick("write-how", 3, 2, 1, 1)
			if how[k] != 0 && len(chunks[k]) == 0 {
				chunks[k] = []byte("x") // (copying or printing nothing calls nobody: only Write(empty) is a write of nothing)
			}
		}
		twice := explicit && t.Draw("second-writeheader", 6) == 0
		// informational responses before the final one (legal since Go 1.19: Early Hints, Processing)
		var early []int
		for k := t.Pick("informational", 6, 1, 1); k > 0; k-- {
			early = append(early, []int{103, 102, 100}[t.Draw("1xx", 3)])
		}
		var cap *httpmw.ResponseCapture
		net := &simnet.Net{Tape: t, Cfg: simnet.Config{Chunking: true, WriterError: 350}}
		net.Handler = http.HandlerFunc(func(w http.ResponseWriter, r *http.Request) {
			cap = httpmw.CaptureResponse(w)
			for _, c := range early {
				cap.WriteHeader(c)
			}
			if explicit {
				cap.WriteHeader(status)
			}
			for k, c := range chunks {
				// the ways a handler writes a body: Write, io.Copy from a plain reader (which uses the writer's
				// ReadFrom when it has one), io.WriteString, fmt.Fprint
				var err error
				switch how[k] {
				case 1:
					_, err = io.Copy(cap, struct{ io.Reader }{bytes.NewReader(c)})
				case 2:
					_, err = io.WriteString(cap, string(c))
				case 3:
					_, err = fmt.Fprint(cap, string(c))
				default:
					_, err = cap.Write(c)
				}
				if err != nil {
					return
				}
			}
			if twice {
				cap.WriteHeader(500)
			}
		})
		ex := &simnet.Exchange{}
		req, _ := http.NewRequestWithContext(simnet.WithExchange(context.Background(), ex), "GET", "http://sim/c", nil)
		resp, err := net.Do(req)
		o.Features["capture_cases"]++
		if ex.WriterErrSeen {
			o.Features["fault_writer_error"]++
		}
		wantStatus := ex.Status // what the underlying writer committed = what the client receives
		sig := fmt.Sprintf("capture:explicit=%v,chunks=%v,second=%v", explicit, nChunks > 0, twice)
		if len(early) > 0 {
			sig += ",informational"
			o.Features["capture_informational_first"]++
			if len(ex.Informational) != len(early) {
				o.Violate("capture_informational", sig, "the handler sent %v before its final response, the writer saw %v", early, ex.Informational)
			}
		}
		fmt.Fprintf(h, "%d:%d:%d;", i, cap.StatusCode, cap.ContentLength)
		if err == nil && resp.StatusCode != wantStatus {
			o.Violate("harness_status", "harness_status", "client saw %d, recorder committed %d", resp.StatusCode, wantStatus)
		}
		if !explicit && nChunks == 0 {
			// the handler wrote nothing through the capture: there is no status
			// "actually written" for it to report
			o.Features["capture_nothing_written"]++
		} else if cap.StatusCode != wantStatus {
			o.Violate("capture_status", sig, "ResponseCapture.StatusCode=%d but the response went out with status %d (explicit WriteHeader=%v, %d chunks)", cap.StatusCode, wantStatus, explicit, nChunks)
		}
		if cap.ContentLength != len(ex.RespBody) {
			o.Violate("capture_length", sig, "ResponseCapture.ContentLength=%d but %d bytes were accepted by the writer (writer error at %d)", cap.ContentLength, len(ex.RespBody), ex.WriterErrAt)
		}
		if len(samples) < 2 {
			samples = append(samples, map[string]any{"explicit": explicit, "status": status, "chunks": len(chunks), "writer_error_at": ex.WriterErrAt, "captured": []int{cap.StatusCode, cap.ContentLength}})
		}
	}
	o.Nontrivial = true
	o.Distinct = "cap" + hex.EncodeToString(h.Sum(nil))[:16]
	o.Digest = o.Distinct
	o.Sample = map[string]any{"mode": "capture", "cases": samples}
	return o
}

// ---------------------------------------------------------------------------
// Samplers over simulated time: 0 and 100 are exact whatever the clock does;
// the adaptive sampler is only required not to fail.
// ---------------------------------------------------------------------------

func runC19Adaptive(t *verifsim.Tape, cfg engine.Config, o *engine.Outcome) *engine.Outcome {
	h := sha256.New()
	sim := verifsim.NewSim(t)
	sim.Strategy = verifsim.Strategy(t.Draw("strategy", 4))
	pct := []int{0, 100, 0, 100, 1 + t.Draw("pct", 99)}[t.Draw("which", 5)]
	adaptive := t.Draw("adaptive", 3) == 0
	var s middleware.Sampler
	var rate, ssz int
	nTasks := 1 + t.Draw("tasks", 4)
	perTask := 5 + t.Draw("calls", 60)
	skew := t.Draw("clock-skew", 2) == 0
	type res struct{ yes, no, back, jump int }
	results := make([]*res, nTasks)
	start := sim.Clock.Time()
	verifsim.SetIdleClock(&start)
	if adaptive {
		rate, ssz = 1+t.Draw("rate", 50), 1+t.Draw("ssz", 8)
		s = middleware.NewAdaptiveSampler(rate, ssz)
	} else {
		s = middleware.NewFixedSampler(pct)
	}
	verifsim.SetIdleClock(nil)
	for i := range results {
		r := &res{}
		results[i] = r
		sim.Spawn(fmt.Sprintf("s%d", i), r, func() {
			for k := 0; k < perTask; k++ {
				// bursts, pauses, and (with skew) small steps backwards
				switch t.Draw("tick", 6) {
				case 0:
					sim.Clock.Advance(time.Duration(t.Draw("ms", 5000)) * time.Millisecond)
				case 1:
					sim.Clock.Advance(time.Duration(t.Draw("us", 1000)) * time.Microsecond)
				case 2:
					if skew {
						sim.Clock.Advance(-time.Duration(t.Draw("back-ms", 2000)) * time.Millisecond)
						r.back++
					}
				case 3:
					if skew && t.Draw("jump", 10) == 0 {
						sim.Clock.Advance(time.Duration(t.Draw("jump-h", 48)) * time.Hour)
						r.jump++
					}
				}
				verifsim.Yield("sample")
				if s.Sample() {
					r.yes++
				} else {
					r.no++
				}
			}
		})
	}
	sim.Run()
	o.Steps, o.SchedHash, o.Tainted = sim.Steps, fmt.Sprintf("%016x", sim.ScheduleHash()), sim.Tainted()
	o.SimSeconds = sim.Clock.Time().Sub(start).Seconds()
	if o.SimSeconds < 0 {
		o.SimSeconds = 0
	}
	if sim.Deadlock {
		o.Violate("deadlock", "deadlock:sampler", "deadlock in sampler after %d steps", sim.Steps)
	}
	yes, no := 0, 0
	for i, st := range sim.Tasks() {
		if st.Panic != nil {
			o.Violate("panic", "panic:sampler:"+firstLine(fmt.Sprint(st.Panic)), "sampler task %d panicked: %v\n%s", i, st.Panic, st.Stack)
		}
		yes += results[i].yes
		no += results[i].no
		o.Features["fault_clock_step_back"] += results[i].back
		o.Features["fault_clock_jump"] += results[i].jump
	}
	fmt.Fprintf(h, "%d/%d", yes, no)
	if !adaptive {
		o.Features[fmt.Sprintf("fixed_sampler_%s", map[bool]string{true: "exact", false: "mid"}[pct == 0 || pct == 100])]++
		if pct == 0 && yes != 0 {
			o.Violate("sampling_not_exact", "sampling0", "sampling 0%%: %d of %d requests sampled", yes, yes+no)
		}
		if pct == 100 && no != 0 {
			o.Violate("sampling_not_exact", "sampling100", "sampling 100%%: %d of %d requests not sampled", no, yes+no)
		}
	} else {
		o.Features["adaptive_sampler_runs"]++
	}
	o.Nontrivial = true
	o.Distinct = "smp" + hex.EncodeToString(h.Sum(nil))[:8] + o.SchedHash
	o.Digest = o.Distinct
	o.Sample = map[string]any{"mode": "sampler", "adaptive": adaptive, "percent": pct, "rate": rate, "sample_size": ssz, "tasks": nTasks, "calls_per_task": perTask, "sampled": yes, "not_sampled": no, "simulated_seconds": o.SimSeconds}
	return o
}
