package main

import (
	"bytes"
	"context"
	"crypto/sha256"
	"encoding/gob"
	"encoding/hex"
	"encoding/json"
	"encoding/xml"
	"errors"
	"fmt"
	"io"
	"net/http"
	"reflect"
	"strings"
	"sync/atomic"
	"time"

	grpcmw "goa.design/goa/v3/grpc/middleware"
	goahttp "goa.design/goa/v3/http"
	httpmw "goa.design/goa/v3/http/middleware"
	"goa.design/goa/v3/middleware"
	goa "goa.design/goa/v3/pkg"
	"goa.design/goa/v3/verifsim"
	"google.golang.org/grpc"
	"verif/sim/engine"
	"verif/sim/simnet"
)

// C20 (runtime half): N client tasks against one mounted server assembled from
// goa's runtime helpers exactly the way generated servers assemble them
// (handler-scoped encoder/decoder/error-encoder closures created once, used by
// every request), under the gated scheduler with the race detector.

type c20body struct {
	XMLName xml.Name `json:"-" xml:"req"`
	Token   string   `json:"token" xml:"token"`
	Code    string   `json:"code" xml:"code"`
}

type c20resp struct {
	XMLName   xml.Name `json:"-" xml:"resp"`
	ID        string   `json:"id" xml:"id"`
	Rest      string   `json:"rest" xml:"rest"`
	Token     string   `json:"token" xml:"token"`
	RequestID string   `json:"rid" xml:"rid"`
	Pattern   string   `json:"pattern" xml:"pattern"`
	EarlyID   string   `json:"early_id" xml:"early_id"`
	EarlyRest string   `json:"early_rest" xml:"early_rest"`
}

type c20req struct {
	Kind   string `json:"kind"` // ok | invalid | declared | plain | notfound | badbody
	ID     string `json:"id"`
	Rest   string `json:"rest,omitempty"`
	Token  string `json:"token"`
	Accept string `json:"accept"`
	RID    string `json:"rid"`
}

type c20result struct {
	status   int
	ct       string
	body     []byte
	echoID   string
	err      error
	panicked any
}

type c20client struct {
	reqs []c20req
	res  []c20result
}

func init() {
	engine.Register("C20", runC20)
	// the pattern cache is process-wide: filled here, every run of this scenario finds the
	// pattern cached wherever it sits in the process's sequence of runs (the miss path and
	// its interleavings are C17's subject)
	_ = goa.ValidatePattern("warm", "c0-0", c20CodePattern)
	// encoding/gob numbers types process-wide in order of first use, and the numbers are
	// part of the wire bytes: fix that order here so a run's bytes (hence its chunking and
	// schedule) do not depend on what the process encoded before
	warmGob(&c20resp{}, &goahttp.ErrorResponse{}, &c20body{}, &c15Struct{}, "", []byte{})
}

func warmGob(vals ...any) {
	for _, v := range vals {
		var b bytes.Buffer
		_ = gob.NewEncoder(&b).Encode(v)
		_ = gob.NewDecoder(&b).Decode(reflect.New(reflect.TypeOf(v)).Interface())
	}
}

const c20CodePattern = `^c[0-9]+-[0-9]+$`

func runC20(t *verifsim.Tape, cfg engine.Config) *engine.Outcome {
	o := &engine.Outcome{Features: map[string]int{}}
	if cfg.Args["half"] == "gen" {
		o.Violate("harness_panic", "harness_panic", "generated half runs in the gen engine")
		return o
	}
	switch t.Pick("mode", 7, 2, 1, 2) {
	case 1:
		return runC20Canceler(t, cfg, o)
	case 2:
		return runC20Skip(t, cfg, o)
	case 3: // samplers shared by concurrent tasks over simulated time
		return runC19Adaptive(t, cfg, o)
	}
	h := sha256.New()
	sim := verifsim.NewSim(t)
	sim.Strategy = verifsim.Strategy(t.Draw("strategy", 4))
	sim.KeepLog = cfg.Verbose
	sim.MapMode = verifsim.MapSeeded // map iteration order in goa comes from the tape, not from the Go runtime
	// ---- server ------------------------------------------------------------------
	mux := goahttp.NewMuxer()
	useRID := t.Draw("use-rid-mw", 2) == 0
	useResolve := t.Draw("use-resolve-mw", 2) == 0
	if useRID {
		mux.Use(httpmw.RequestID(httpmw.UseXRequestIDHeaderOption(true)))
	}
	if useResolve {
		mux.Use(func(next http.Handler) http.Handler {
			return http.HandlerFunc(func(w http.ResponseWriter, r *http.Request) {
				p := mux.ResolvePattern(r)
				next.ServeHTTP(w, r.WithContext(context.WithValue(r.Context(), patKey{}, p)))
			})
		})
	}
	// a muxer-level middleware that asks for the path variables BEFORE the request is routed (goa's Debug
	// middleware and instrumentation do), then does some I/O of its own (a scheduling point), then uses them
	useEarlyVars := t.Draw("use-early-vars-mw", 2) == 0
	if useEarlyVars {
		mux.Use(func(next http.Handler) http.Handler {
			return http.HandlerFunc(func(w http.ResponseWriter, r *http.Request) {
				v := mux.Vars(r)
				verifsim.Yield("mw-io")
				ctx := context.WithValue(r.Context(), earlyKey{}, [2]string{v["id"], v["rest"]})
				next.ServeHTTP(w, r.WithContext(ctx))
			})
		})
	}
	var (
		decoder = goahttp.RequestDecoder
		encoder = goahttp.ResponseEncoder
		encErr  = goahttp.ErrorEncoder(encoder, nil) // one closure per mounted handler, shared by all requests
	)
	// one run in two validates against a pattern no run has used before: the first requests of a cold server miss the
	// pattern cache together
	codePattern := c20CodePattern
	if t.Draw("cold-pattern", 2) == 0 {
		codePattern = fmt.Sprintf("(?:%x){0}", t.Sub("marker")) + c20CodePattern
	}
	// an error value the service shares between requests (a package-level sentinel built as a struct literal, so
	// without an identifier): whatever turns it into a response must leave it alone
	sentinel := &goa.ServiceError{Name: "busy", Message: "shared sentinel", Temporary: true}
	sentinelBefore := fmt.Sprintf("%+v", *sentinel)
	handle := func(wild bool) http.HandlerFunc {
		return func(w http.ResponseWriter, r *http.Request) {
			ctx := context.WithValue(r.Context(), goahttp.AcceptTypeKey, r.Header.Get("Accept"))
			vars := mux.Vars(r)
			var body c20body
			if err := decoder(r).Decode(&body); err != nil {
				var gerr *goa.ServiceError
				if err == io.EOF {
					err = goa.MissingPayloadError()
				} else if !errors.As(err, &gerr) {
					err = goa.DecodePayloadError(err.Error())
				}
				_ = encErr(ctx, w, err)
				return
			}
			if err := goa.ValidatePattern("body.code", body.Code, codePattern); err != nil {
				_ = encErr(ctx, w, err)
				return
			}
			switch {
			case strings.HasPrefix(body.Token, "declared-"):
				_ = encErr(ctx, w, goa.PermanentError("conflict", "declared error for %s", body.Token))
				return
			case strings.HasPrefix(body.Token, "sentinel-"):
				_ = encErr(ctx, w, sentinel)
				return
			case strings.HasPrefix(body.Token, "wrapped-"):
				_ = encErr(ctx, w, fmt.Errorf("while serving %s: %w", body.Token, sentinel))
				return
			case strings.HasPrefix(body.Token, "plain-"):
				_ = encErr(ctx, w, fmt.Errorf("plain failure for %s", body.Token))
				return
			}
			res := &c20resp{ID: vars["id"], Rest: vars["rest"], Token: body.Token}
			if v := ctx.Value(middleware.RequestIDKey); v != nil {
				res.RequestID = v.(string)
			}
			if v := ctx.Value(patKey{}); v != nil {
				res.Pattern = v.(string)
			}
			if v, ok := ctx.Value(earlyKey{}).([2]string); ok {
				res.EarlyID, res.EarlyRest = v[0], v[1]
			}
			enc := encoder(ctx, w)
			w.Header().Set("X-Echo-Id", vars["id"])
			w.WriteHeader(http.StatusOK)
			_ = enc.Encode(res)
		}
	}
	mux.Handle("POST", "/echo/{id}", handle(false))
	mux.Handle("POST", "/items/{id}/{*rest}", handle(true))
	net := &simnet.Net{Tape: t, Handler: mux, Cfg: simnet.Config{Yields: true, Chunking: true, HeaderNoise: 200, ForceChunked: 200, Delay: 100, DoubleClose: 150}}
	// ---- clients -----------------------------------------------------------------
	nTasks := 2 + t.Pick("tasks", 4, 4, 3, 3, 2, 2, 1, 1, 1, 1, 1, 1, 1, 1, 1)
	if cfg.Tier == "thorough" && t.Draw("many", 6) == 0 {
		nTasks = 17 + t.Draw("tasks64", 48)
	}
	maxReq := 4
	if cfg.Tier == "thorough" {
		maxReq = 10
	}
	accepts := []string{"", "application/json", "application/xml", "application/gob", "application/xml; q=0.9",
		"application/json; q=0.8", "application/gob;q=0.5", "application/xml; charset=utf-8", "application/json; charset=utf-8", "application/gob; q=0.9"}
	clients := make([]*c20client, nTasks)
	total := 0
	for i := range clients {
		c := &c20client{}
		n := 1 + t.Draw("nreq", maxReq)
		for k := 0; k < n; k++ {
			q := c20req{Token: fmt.Sprintf("tok%d-%d", i, k), ID: fmt.Sprintf("id%d-%d", i, k), Accept: accepts[t.Draw("accept", len(accepts))], RID: fmt.Sprintf("rid%d-%d", i, k)}
			q.Kind = []string{"ok", "ok", "ok", "wild", "invalid", "declared", "plain", "notfound", "badbody", "sentinel", "wrapped"}[t.Draw("kind", 11)]
			switch q.Kind {
			case "wild":
				q.Rest = fmt.Sprintf("r%d/%d %%41", i, k)
			case "declared":
				q.Token = "declared-" + q.Token
			case "plain":
				q.Token = "plain-" + q.Token
			case "sentinel", "wrapped":
				q.Token = q.Kind + "-" + q.Token
			}
			c.reqs = append(c.reqs, q)
		}
		total += n
		clients[i] = c
		i := i
		sim.Spawn(fmt.Sprintf("client%d", i), c, func() {
			for k, q := range c.reqs {
				var res c20result
				func() {
					defer func() {
						if p := recover(); p != nil {
							res.panicked = p
						}
					}()
					path := "/echo/" + q.ID
					switch q.Kind {
					case "wild":
						parts := strings.Split(q.Rest, "/")
						for x := range parts {
							parts[x] = pathEscape(parts[x])
						}
						path = "/items/" + q.ID + "/" + strings.Join(parts, "/")
					case "notfound":
						path = "/nothing/" + q.ID
					}
					body := &c20body{Token: q.Token, Code: fmt.Sprintf("c%d-%d", i, k)}
					if q.Kind == "invalid" {
						body.Code = fmt.Sprintf("bad code %d-%d", i, k)
					}
					req, _ := http.NewRequest("POST", "http://sim"+path, nil)
					if q.Kind == "badbody" {
						req.Body = io.NopCloser(strings.NewReader(`{"token": ` + fmt.Sprintf("%q", q.Token)))
						req.Header.Set("Content-Type", "application/json")
					} else if err := goahttp.RequestEncoder(req).Encode(body); err != nil {
						res.err = err
						return
					}
					if q.Accept != "" {
						req.Header.Set("Accept", q.Accept)
					}
					req.Header.Set("X-Request-Id", q.RID)
					ex := &simnet.Exchange{}
					req = req.WithContext(simnet.WithExchange(context.Background(), ex))
					resp, err := net.Do(req)
					if err != nil {
						res.err = err
						if ex.HandlerPanic != nil {
							res.panicked = fmt.Sprintf("handler panic: %v\n%s", ex.HandlerPanic, ex.PanicStack)
						}
						return
					}
					res.status = resp.StatusCode
					res.ct = resp.Header.Get("Content-Type")
					res.echoID = resp.Header.Get("X-Echo-Id")
					res.body, res.err = io.ReadAll(resp.Body)
					if ex.HandlerPanic != nil {
						res.panicked = fmt.Sprintf("handler panic: %v\n%s", ex.HandlerPanic, ex.PanicStack)
					}
				}()
				c.res = append(c.res, res)
			}
		})
	}
	sim.Run()
	o.Steps, o.SchedHash, o.Tainted = sim.Steps, fmt.Sprintf("%016x", sim.ScheduleHash()), sim.Tainted()
	if sim.Deadlock {
		o.Violate("deadlock", "deadlock:server", "all tasks blocked after %d steps", sim.Steps)
	}
	if sim.StepCapHit {
		o.Violate("no_progress", "stepcap:server", "step cap reached")
	}
	for i, st := range sim.Tasks() {
		if st.Panic != nil {
			o.Violate("panic", "panic:"+firstLine(fmt.Sprint(st.Panic)), "client %d panicked: %v\n%s", i, st.Panic, st.Stack)
		}
	}
	// ---- echo oracle ---------------------------------------------------------------
	wantClass := func(accept string) string {
		switch {
		case strings.HasPrefix(accept, "application/xml"):
			return "xml"
		case strings.HasPrefix(accept, "application/gob"):
			return "gob"
		}
		return "json"
	}
	decodeInto := func(class string, b []byte, v any) error {
		switch class {
		case "xml":
			return xml.Unmarshal(b, v)
		case "gob":
			return gob.NewDecoder(bytes.NewReader(b)).Decode(v)
		}
		return json.Unmarshal(b, v)
	}
	errorIDs := map[string]string{}
	for i, c := range clients {
		if len(c.res) != len(c.reqs) && !sim.Tainted() {
			o.Violate("task_incomplete", "task_incomplete", "client %d finished %d of %d requests", i, len(c.res), len(c.reqs))
		}
		for k, r := range c.res {
			q := c.reqs[k]
			o.Features["req_"+q.Kind]++
			// gob streams carry process-global type ids: the digest takes the decoded content
			bodyDigest := fmt.Sprintf("%x", sha256.Sum256(r.body))
			if mediaClass(r.ct) == "gob" {
				var okv c20resp
				var erv goahttp.ErrorResponse
				if gob.NewDecoder(bytes.NewReader(r.body)).Decode(&okv) == nil && okv.ID != "" {
					bodyDigest = fmt.Sprintf("gob:%+v", okv)
				} else if gob.NewDecoder(bytes.NewReader(r.body)).Decode(&erv) == nil {
					bodyDigest = fmt.Sprintf("gob:%+v", erv)
				}
			}
			fmt.Fprintf(h, "%d.%d:%d:%s:%s;", i, k, r.status, r.ct, bodyDigest)
			where := fmt.Sprintf("client %d request %d (%s, Accept %q)", i, k, q.Kind, q.Accept)
			if r.panicked != nil {
				o.Violate("panic", "panic:server:"+firstLine(fmt.Sprint(r.panicked)), "%s: %v", where, r.panicked)
				continue
			}
			if r.err != nil {
				o.Violate("exchange_error", "exchange_error", "%s: %v", where, r.err)
				continue
			}
			class := wantClass(q.Accept)
			if got := mediaClass(r.ct); got != class {
				o.Violate("leak_content_type", "leak_content_type", "%s: response Content-Type %q (%s), own Accept asks for %s", where, r.ct, got, class)
				continue
			}
			expStatus := map[string]int{"ok": 200, "wild": 200, "invalid": 400, "declared": 400, "plain": 500, "notfound": 404, "badbody": 400, "sentinel": 503, "wrapped": 503}[q.Kind]
			if r.status != expStatus {
				o.Violate("wrong_status", "wrong_status:"+q.Kind, "%s: status %d, want %d; body %q", where, r.status, expStatus, clip(r.body))
				continue
			}
			if q.Kind == "ok" || q.Kind == "wild" {
				var got c20resp
				if err := decodeInto(class, r.body, &got); err != nil {
					o.Violate("echo_undecodable", "echo_undecodable", "%s: %v body %q", where, err, clip(r.body))
					continue
				}
				wantRID := ""
				if useRID {
					wantRID = q.RID
				}
				wantPat := ""
				if useResolve {
					wantPat = map[string]string{"ok": "/echo/{id}", "wild": "/items/{id}/{*rest}"}[q.Kind]
				}
				if useEarlyVars && (got.EarlyID != q.ID || got.EarlyRest != q.Rest) {
					o.Violate("leak_echo", "leak_echo:early-vars", "%s: a muxer middleware that called Vars before routing saw {id:%q rest:%q}, own request has {id:%q rest:%q}", where, got.EarlyID, got.EarlyRest, q.ID, q.Rest)
				}
				if got.ID != q.ID || got.Token != q.Token || got.Rest != q.Rest || r.echoID != q.ID || got.RequestID != wantRID || got.Pattern != wantPat {
					o.Violate("leak_echo", "leak_echo", "%s: response {id:%q rest:%q token:%q rid:%q pattern:%q hdr:%q} is not the function of its own request {id:%q rest:%q token:%q rid:%q pattern:%q}",
						where, got.ID, got.Rest, got.Token, got.RequestID, got.Pattern, r.echoID, q.ID, q.Rest, q.Token, wantRID, wantPat)
				}
			} else {
				var er goahttp.ErrorResponse
				if err := decodeInto(class, r.body, &er); err != nil {
					o.Violate("error_undecodable", "error_undecodable", "%s: %v body %q", where, err, clip(r.body))
					continue
				}
				// every error a server produces gets an identifier of its own: two responses carrying the same one
				// (or one made of two) means the identifier of one request was computed from state another request touched
				if er.ID != "" {
					if prev, dup := errorIDs[er.ID]; dup {
						o.Violate("leak_error_id", "leak_error_id", "%s: its error response carries the identifier %q, which %s carries too", where, er.ID, prev)
					}
					errorIDs[er.ID] = where
				}
				wantName := map[string]string{"invalid": "invalid_pattern", "declared": "conflict", "plain": "fault", "notfound": "fault", "badbody": "decode_payload", "sentinel": "busy", "wrapped": "busy"}[q.Kind]
				own := map[string]string{"invalid": fmt.Sprintf("bad code %d-%d", i, k), "declared": q.Token, "plain": q.Token, "notfound": "404", "badbody": "", "sentinel": "shared sentinel", "wrapped": "shared sentinel"}[q.Kind]
				if er.Name != wantName || !strings.Contains(er.Message, own) {
					o.Violate("leak_error", "leak_error:"+q.Kind, "%s: error {name:%q message:%q}, want name %q and a message about %q", where, er.Name, er.Message, wantName, own)
				}
				if (q.Kind == "plain" || q.Kind == "notfound") != er.Fault {
					o.Violate("leak_error", "leak_error_flag:"+q.Kind, "%s: fault flag %v", where, er.Fault)
				}
			}
		}
	}
	if now := fmt.Sprintf("%+v", *sentinel); now != sentinelBefore {
		o.Violate("shared_error_mutated", "shared_error_mutated", "an error value the handlers share was modified while it was turned into responses: %s, was %s", now, sentinelBefore)
	}
	o.Features["tasks"] = nTasks
	o.Features["requests"] = total
	o.Features["_evaluations"] = total
	if sim.Switches > nTasks {
		o.Features["interleaved_runs"]++
	}
	o.Nontrivial = nTasks > 1
	o.Distinct = o.SchedHash
	o.Digest = hex.EncodeToString(h.Sum(nil))[:16] + "/" + o.SchedHash
	first := clients[0].reqs
	if len(first) > 3 {
		first = first[:3]
	}
	o.Sample = map[string]any{"mode": "server", "tasks": nTasks, "requests": total, "request_id_middleware": useRID, "resolve_middleware": useResolve, "strategy": int(sim.Strategy), "steps": sim.Steps, "client0": first, "schedule": sim.Sched}
	return o
}

type patKey struct{}
type earlyKey struct{}

func pathEscape(s string) string {
	var b strings.Builder
	for i := 0; i < len(s); i++ {
		c := s[i]
		if c == '%' || c == ' ' || c == '/' || c == '?' || c == '#' {
			fmt.Fprintf(&b, "%%%02X", c)
		} else {
			b.WriteByte(c)
		}
	}
	return b.String()
}

// ---------------------------------------------------------------------------
// StreamCanceler: streams starting and finishing while a shutdown happens.
// Oracles: no race, no deadlock, every handler finishes (C20 says nothing
// about which streams a shutdown cancels).
// ---------------------------------------------------------------------------

func runC20Canceler(t *verifsim.Tape, cfg engine.Config, o *engine.Outcome) *engine.Outcome {
	sim := verifsim.NewSim(t)
	sim.Strategy = verifsim.Strategy(t.Draw("strategy", 4))
	nStreams := 1 + t.Draw("streams", 6)
	type st struct {
		started, finished atomic.Bool // (tasks are serialised by gates the race detector cannot see: what the driver reads after the run is atomic)
		err               error
		long                       bool   // the handler waits for its context to be cancelled
		handlerSeq                 atomic.Uint64 // logical time at which the handler was entered (registration is complete by then)
	}
	var cancelSeq atomic.Uint64 // logical time of the shutdown
	states := make([]*st, nStreams)
	var interceptor grpc.StreamServerInterceptor
	ctx, cancel := context.WithCancel(context.Background())
	cancelAt := t.Draw("cancel-at", 4)
	boot := &st{}
	var ready atomic.Bool // server boot happens-before the streams it serves
	sim.Spawn("boot", boot, func() {
		interceptor = grpcmw.StreamCanceler(ctx)
		ready.Store(true)
		for i := 0; i < cancelAt; i++ {
			verifsim.Yield("boot-wait")
		}
		cancelSeq.Store(sim.Seq())
		cancel()
	})
	for i := range states {
		s := &st{long: t.Draw("long-stream", 2) == 0}
		states[i] = s
		sim.Spawn(fmt.Sprintf("stream%d", i), s, func() {
			for k := 0; !ready.Load() && k < 50; k++ {
				verifsim.Yield("wait-boot")
			}
			if !ready.Load() {
				return
			}
			s.started.Store(true)
			s.err = interceptor(nil, &fakeStream{context.Background()}, &grpc.StreamServerInfo{FullMethod: "/s/m"}, func(srv any, ss grpc.ServerStream) error {
				s.handlerSeq.Store(sim.Seq())
				if s.long {
					// a stream that stays open until the server tells it to stop (a subscription): it blocks on its
					// context, other tasks run meanwhile
					verifsim.Recv(ss.Context().Done())
					return ss.Context().Err()
				}
				// a well-behaved handler: works a little, stops when cancelled
				for k := 0; k < 1+t.Draw("work", 4); k++ {
					verifsim.Yield("stream-work")
					if ss.Context().Err() != nil {
						return ss.Context().Err()
					}
				}
				return nil
			})
			s.finished.Store(true)
		})
	}
	sim.Run()
	o.Steps, o.SchedHash = sim.Steps, fmt.Sprintf("%016x", sim.ScheduleHash())
	o.Tainted = sim.Tainted()
	if sim.Deadlock {
		o.Violate("deadlock", "deadlock:canceler", "deadlock after %d steps", sim.Steps)
	}
	if sim.StepCapHit {
		o.Violate("no_progress", "stepcap:canceler", "step cap reached")
	}
	for i, tk := range sim.Tasks() {
		if tk.Panic != nil {
			o.Violate("panic", "panic:canceler:"+firstLine(fmt.Sprint(tk.Panic)), "task %d: %v\n%s", i, tk.Panic, tk.Stack)
		}
	}
	for i, s := range states {
		if s.started.Load() && !s.finished.Load() && !sim.Deadlock && !sim.StepCapHit && sim.Pollers == 0 {
			o.Violate("stream_stuck", "stream_stuck", "stream %d never finished", i)
		}
		// a stream whose handler was running BEFORE the shutdown was registered with the canceler before it: the
		// shutdown reaches it, whatever other streams came and went meanwhile (each stream's registration is its own).
		// Streams that register while the shutdown is under way are not judged (goa's check-then-store window,
		// DESIGN section 9 item 12).
		if hs, cs := s.handlerSeq.Load(), cancelSeq.Load(); s.long && hs != 0 && cs != 0 && hs < cs {
			o.Features["canceler_long_streams_open_at_shutdown"]++
			if !s.finished.Load() && !sim.StepCapHit {
				o.Violate("shutdown_missed_stream", "shutdown_missed_stream", "stream %d was open (handler entered at logical time %d) when the server context was cancelled (at %d) and was never cancelled: its registration with the canceler was lost to another stream's", i, hs, cs)
			}
		}
	}
	o.Features["canceler_runs"]++
	o.Features["canceler_streams"] += nStreams
	o.Features["_evaluations"] = nStreams
	if sim.Pollers > 0 {
		o.Features["canceler_leftover_pollers"]++
	}
	o.Nontrivial = true
	o.Distinct = "canc" + o.SchedHash
	o.Digest = o.Distinct
	o.Sample = map[string]any{"mode": "stream-canceler", "streams": nStreams, "cancel_after_yields": cancelAt, "steps": sim.Steps}
	return o
}

// ---------------------------------------------------------------------------
// SkipResponseWriter: blocks inside io.Pipe, so it runs un-gated with a single
// driver; the outcome is schedule independent by construction (FIFO byte
// stream, blocking reads only).
// ---------------------------------------------------------------------------

func runC20Skip(t *verifsim.Tape, cfg engine.Config, o *engine.Outcome) *engine.Outcome {
	h := sha256.New()
	nChunks := t.Draw("chunks", 6)
	chunks := make([][]byte, nChunks)
	var all []byte
	for i := range chunks {
		chunks[i] = []byte(nstr(t, letdig, 0, 30))
		all = append(all, chunks[i]...)
	}
	failAt := -1
	if t.Draw("writer-fails", 3) == 0 {
		failAt = t.Draw("fail-at", nChunks+1)
	}
	boom := errors.New("scripted writer failure")
	done := make(chan struct{})
	var writeErr error
	wt := goa.WriterToFunc(func(w io.Writer) error {
		defer close(done)
		for i, c := range chunks {
			if i == failAt {
				return boom
			}
			if _, err := w.Write(c); err != nil {
				writeErr = err
				return err
			}
		}
		if failAt == nChunks {
			return boom
		}
		return nil
	})
	rc := goa.SkipResponseWriter(wt)
	mode := t.Draw("skipmode", 3) // 0 read to the end, 1 read some then close, 2 WriteTo
	var got []byte
	var finalErr error
	started := false
	switch mode {
	case 2:
		var buf bytes.Buffer
		n, err := rc.(io.WriterTo).WriteTo(&buf)
		started = true
		got, finalErr = buf.Bytes(), err
		if int(n) != buf.Len() {
			o.Violate("skip_count", "skip_count", "WriteTo reported %d bytes, wrote %d", n, buf.Len())
		}
	default:
		nReads := 1 + t.Draw("reads", 12)
		for i := 0; i < nReads || mode == 0; i++ {
			b := make([]byte, 1+t.Draw("readlen", 40))
			n, err := rc.Read(b)
			started = true
			got = append(got, b[:n]...)
			if err != nil {
				finalErr = err
				break
			}
			if i > 10000 {
				o.Violate("skip_no_eof", "skip_no_eof", "no EOF after 10000 reads")
				break
			}
		}
		if err := rc.Close(); err != nil {
			o.Violate("skip_close", "skip_close", "Close: %v", err)
		}
		started = true
	}
	if started {
		select {
		case <-done:
		case <-time.After(5 * time.Second):
			o.Violate("skip_goroutine_leak", "skip_goroutine_leak", "the writer goroutine did not finish after Close/EOF (mode %d)", mode)
		}
	}
	fmt.Fprintf(h, "%d:%x:%v", mode, got, finalErr)
	want := all
	if failAt >= 0 {
		want = nil
		for i := 0; i < failAt && i < nChunks; i++ {
			want = append(want, chunks[i]...)
		}
	}
	if !bytes.HasPrefix(want, got) {
		o.Violate("skip_bytes", "skip_bytes", "read %q, written %q", got, want)
	}
	if mode != 1 || finalErr != nil {
		switch {
		case failAt >= 0 && finalErr != nil && finalErr != io.EOF:
			if !errors.Is(finalErr, boom) {
				o.Violate("skip_error", "skip_error", "writer failed with %v, reader saw %v", boom, finalErr)
			}
		case failAt < 0 && mode == 0:
			if finalErr != io.EOF || !bytes.Equal(got, want) {
				o.Violate("skip_bytes", "skip_bytes_eof", "read %q err %v, written %q", got, finalErr, want)
			}
		case failAt < 0 && mode == 2:
			if finalErr != nil || !bytes.Equal(got, want) {
				o.Violate("skip_bytes", "skip_bytes_writeto", "WriteTo copied %q err %v, written %q", got, finalErr, want)
			}
		}
	}
	_ = writeErr
	o.Features["skipwriter_runs"]++
	o.Features["_evaluations"] = 1
	if failAt >= 0 {
		o.Features["fault_writer_to_error"]++
	}
	if mode == 1 {
		o.Features["fault_early_close"]++
	}
	o.Nontrivial = true
	o.Distinct = "skip" + hex.EncodeToString(h.Sum(nil))[:12]
	o.Digest = o.Distinct
	o.Sample = map[string]any{"mode": "skip-response-writer", "chunks": nChunks, "fail_at": failAt, "driver": []string{"read-to-end", "read-then-close", "WriteTo"}[mode]}
	return o
}
