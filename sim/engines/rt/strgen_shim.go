package main

import (
	"goa.design/goa/v3/verifsim"
	"verif/sim/strgen"
)

type rx = strgen.Rx
type fmtCase = strgen.FmtCase

const (
	letters    = strgen.Letters
	letdig     = strgen.Letdig
	rxAlphabet = strgen.RxAlphabet
)

func nstr(t *verifsim.Tape, set string, lo, hi int) string { return strgen.Nstr(t, set, lo, hi) }
func pickc(t *verifsim.Tape, set string) byte              { return strgen.Pickc(t, set) }
func genRegex(t *verifsim.Tape, depth int) rx              { return strgen.GenRegex(t, depth) }
func genFormatCase(t *verifsim.Tape) fmtCase               { return strgen.GenFormatCase(t) }
