package main

import (
	"crypto/sha256"
	"encoding/hex"
	"errors"
	"fmt"
	"regexp"
	"strings"

	goa "goa.design/goa/v3/pkg"
	"goa.design/goa/v3/verifsim"
	"verif/sim/engine"
	"verif/sim/strgen"
)

// C17: tasks share the process-wide pattern cache under the gated scheduler.
// Every verdict must equal the model's verdict for the call's own arguments,
// in every schedule and after every history.

type c17op struct {
	Kind    string `json:"kind"` // pattern | format
	Pattern string `json:"pattern,omitempty"`
	Format  string `json:"format,omitempty"`
	Value   string `json:"value"`
	Want    bool   `json:"want"` // true = must be accepted
	How     string `json:"how,omitempty"`
}

type c17res struct {
	ok   bool
	name string
	seq  uint64
}

type c17task struct {
	ops []c17op
	res []c17res
}

func errName(err error) string {
	var se *goa.ServiceError
	if errors.As(err, &se) {
		return se.Name
	}
	return "?" + fmt.Sprintf("%T", err)
}

func init() { engine.Register("C17", runC17) }

func runC17(t *verifsim.Tape, cfg engine.Config) *engine.Outcome {
	o := &engine.Outcome{Features: map[string]int{}}
	thorough := cfg.Tier == "thorough"
	// --- scenario -----------------------------------------------------------
	nTasks := 1 + t.Pick("tasks", 2, 4, 4, 3, 2, 1, 1, 1) // 1..8
	if t.Draw("manytasks", 10) == 0 {
		nTasks = 9 + t.Draw("tasks16", 8) // 9..16
	}
	mix := t.Draw("mix", 4) // 0 patterns only, 1 formats only, 2,3 both
	nPat := 1 + t.Draw("npat", 6)
	// one run in eight works a pool that is larger than any plausible bound of
	// the cache, then goes back to the patterns it used first: verdicts must
	// not depend on how many other patterns were seen in between
	bigPool := t.Draw("bigpool", 8) == 7
	if bigPool {
		nPat = 130 + t.Draw("npat-big", 300)
		if nTasks > 3 {
			nTasks = 3
		}
	}
	// the marker makes this run's patterns distinct from every other run's, so
	// a worker process that hosts many runs starts each one on a cold entry
	marker := fmt.Sprintf("(?:%x){0}", t.Sub("marker"))
	type pat struct {
		src string
		rx  rx
		re  *regexp.Regexp
	}
	pats := make([]pat, nPat)
	for i := range pats {
		var r rx
		if bigPool && i >= 4 {
			r = strgen.PrefixClass(fmt.Sprintf("p%d-", i))
		} else {
			r = genRegex(t, 2)
		}
		src := marker + r.String()
		if !bigPool && t.Draw("plain-shape", 6) == 0 {
			// patterns exactly as a design writes the common ones - a literal, anchored or not, nothing in front of
			// it - kept distinct from every other run's by a run-unique tail INSIDE the literal
			lit := strgen.Nstr(t, "abcxyz019_-.", 1, 4) + fmt.Sprintf("%x", t.Sub("marker"))
			r = strgen.AnchoredLiteral(lit, t.Draw("anch", 2) == 0, t.Draw("anch", 2) == 0)
			src = r.String()
		}
		if t.Draw("nomarker-dup", 8) == 0 && i > 0 {
			src, r = pats[i-1].src, pats[i-1].rx // two pool slots, one cache entry
		}
		re, err := regexp.Compile(src)
		if err != nil {
			// the grammar only produces valid RE2; if not, that is a harness bug
			o.Violate("harness_regex", "harness_regex", "generated pattern %q does not compile: %v", src, err)
			return o
		}
		pats[i] = pat{src, r, re}
	}
	maxOps := 24
	if thorough {
		maxOps = 120
	}
	tasks := make([]*c17task, nTasks)
	totalOps := 0
	for i := range tasks {
		n := 2 + t.Draw("nops", maxOps)
		if bigPool {
			n = 2*nPat/nTasks + 16
		}
		tk := &c17task{}
		for j := 0; j < n; j++ {
			usePat := mix == 0 || (mix >= 2 && t.Draw("kind", 2) == 0) || bigPool
			if usePat {
				p := pats[t.Draw("pat", len(pats))]
				if bigPool {
					switch {
					case j < 4 || j >= n-12: // first and last calls use the first four patterns
						p = pats[t.Draw("pat-early", 4)]
					default: // in between, walk the pool
						p = pats[(4+(j*nTasks+i))%len(pats)]
					}
				}
				var v string
				switch t.Draw("valk", 5) {
				case 4: // a sample with something in front of it or behind it
					v = p.rx.Sample(t)
					if t.Draw("pad-front", 2) == 0 {
						v = string(pickc(t, rxAlphabet)) + v
					} else {
						v += string(pickc(t, rxAlphabet))
					}
				case 0, 1:
					v = p.rx.Sample(t)
				case 2: // near miss: sample with one character changed / dropped
					v = p.rx.Sample(t)
					if len(v) > 0 {
						k := t.Draw("at", len(v))
						if t.Draw("drop", 2) == 0 {
							v = v[:k] + v[k+1:]
						} else {
							v = v[:k] + string(pickc(t, rxAlphabet+" Z")) + v[k+1:]
						}
					}
				default: // a sample of another pattern of the pool
					v = pats[t.Draw("pat", len(pats))].rx.Sample(t)
				}
				tk.ops = append(tk.ops, c17op{Kind: "pattern", Pattern: p.src, Value: v, Want: p.re.MatchString(v)})
			} else {
				c := genFormatCase(t)
				tk.ops = append(tk.ops, c17op{Kind: "format", Format: c.Format, Value: c.Value, Want: c.Valid, How: c.How})
			}
		}
		totalOps += n
		tasks[i] = tk
	}
	// pre-warm part of the pool from the setup goroutine (history dependence)
	warm := 0
	if t.Draw("warm", 3) == 0 {
		for _, p := range pats {
			if t.Draw("warmthis", 2) == 0 {
				_ = goa.ValidatePattern("w", "", p.src)
				warm++
			}
		}
	}
	// --- run ------------------------------------------------------------------
	sim := verifsim.NewSim(t)
	sim.Strategy = verifsim.Strategy(t.Draw("strategy", 4))
	sim.KeepLog = cfg.Verbose
	for i, tk := range tasks {
		tk := tk
		sim.Spawn(fmt.Sprintf("v%d", i), tk, func() {
			for _, op := range tk.ops {
				verifsim.Yield("op")
				var err error
				if op.Kind == "pattern" {
					err = goa.ValidatePattern("body.x", op.Value, op.Pattern)
				} else {
					err = goa.ValidateFormat("body.x", op.Value, goa.Format(op.Format))
				}
				r := c17res{ok: err == nil, seq: sim.Seq()}
				if err != nil {
					r.name = errName(err)
				}
				tk.res = append(tk.res, r)
			}
		})
	}
	sim.Run()
	// --- oracle ---------------------------------------------------------------
	o.Steps = sim.Steps
	o.SchedHash = fmt.Sprintf("%016x", sim.ScheduleHash())
	o.Tainted = sim.Tainted()
	h := sha256.New()
	if sim.Deadlock {
		o.Violate("deadlock", "deadlock", "all live tasks blocked after %d steps", sim.Steps)
	}
	if sim.StepCapHit {
		o.Violate("no_progress", "stepcap", "step cap %d reached", sim.StepCap)
	}
	for i, st := range sim.Tasks() {
		if st.Panic != nil {
			o.Violate("panic", "panic:"+firstLine(fmt.Sprint(st.Panic)), "task %d panicked: %v\n%s", i, st.Panic, st.Stack)
		}
	}
	firstUse := map[string]uint64{}
	for i, tk := range tasks {
		for j, r := range tk.res {
			op := tk.ops[j]
			fmt.Fprintf(h, "%d.%d:%v:%s:%d;", i, j, r.ok, r.name, r.seq)
			if op.Kind == "pattern" {
				o.Features["op_pattern"]++
				if r.ok != op.Want {
					o.Violate("pattern_verdict", "pattern_verdict",
						"task %d op %d: ValidatePattern(%q, %q) accepted=%v, regexp says %v", i, j, op.Pattern, op.Value, r.ok, op.Want)
				}
				if !r.ok && r.name != "invalid_pattern" {
					o.Violate("pattern_error_name", "pattern_error_name:"+r.name, "task %d op %d: error name %q", i, j, r.name)
				}
				if _, seen := firstUse[op.Pattern]; !seen {
					firstUse[op.Pattern] = r.seq
				}
			} else {
				o.Features["op_format_"+op.Format]++
				if r.ok != op.Want {
					dir := "accepts-malformed"
					if op.Want {
						dir = "rejects-wellformed"
					}
					o.Violate("format_verdict", fmt.Sprintf("format=%s:%s:%s", op.Format, dir, op.How),
						"task %d op %d: ValidateFormat(%q, %s) accepted=%v but the value is %s by construction (%s)", i, j, op.Value, op.Format, r.ok, map[bool]string{true: "well-formed", false: "malformed"}[op.Want], op.How)
				}
				if !r.ok && r.name != "invalid_format" {
					o.Violate("format_error_name", "format_error_name:"+r.name, "task %d op %d: error name %q", i, j, r.name)
				}
			}
		}
		if len(tk.res) != len(tk.ops) && !sim.Tainted() && sim.Tasks()[i].Panic == nil {
			o.Violate("task_incomplete", "task_incomplete", "task %d finished %d of %d ops", i, len(tk.res), len(tk.ops))
		}
	}
	// relation: ip <=> ipv4 xor ipv6, on every generated address-like value
	for _, tk := range tasks {
		for _, op := range tk.ops {
			if op.Kind == "format" && (op.Format == "ip" || op.Format == "ipv4" || op.Format == "ipv6") {
				ip := goa.ValidateFormat("x", op.Value, goa.FormatIP) == nil
				v4 := goa.ValidateFormat("x", op.Value, goa.FormatIPv4) == nil
				v6 := goa.ValidateFormat("x", op.Value, goa.FormatIPv6) == nil
				o.Features["ip_relation"]++
				if ip != (v4 != v6) || (v4 && v6) {
					o.Violate("ip_relation", "ip_relation", "value %q: ip=%v ipv4=%v ipv6=%v", op.Value, ip, v4, v6)
				}
			}
		}
	}
	// probes
	if nTasks > 1 && sim.Switches > nTasks {
		o.Features["interleaved_runs"]++
	}
	if warm > 0 {
		o.Features["prewarmed_runs"]++
	}
	if bigPool {
		o.Features["big_pool_runs"]++
		o.Features["big_pool_patterns"] += nPat
	}
	// concurrent miss on one pattern: two tasks inside the miss path at once is
	// visible as two write-lock grants for a single-pattern pool; counted from
	// the schedule log when kept, else approximated by lock steps
	o.Features["tasks"] = nTasks
	o.Features["ops"] = totalOps
	o.Nontrivial = totalOps > 0 && (nTasks > 1 || warm > 0 || mix != 1)
	o.Distinct = fmt.Sprintf("%s/%d/%d/%d", o.SchedHash, nTasks, mix, nPat)
	o.Digest = hex.EncodeToString(h.Sum(nil))[:16] + "/" + o.SchedHash
	smp := map[string]any{"tasks": nTasks, "strategy": int(sim.Strategy), "prewarmed": warm, "steps": sim.Steps}
	var ops [][]c17op
	for _, tk := range tasks {
		n := len(tk.ops)
		if n > 4 {
			n = 4
		}
		ops = append(ops, tk.ops[:n])
	}
	smp["first_ops_per_task"] = ops
	if cfg.Verbose {
		smp["schedule"] = sim.Sched
	}
	o.Sample = smp
	return o
}

func firstLine(s string) string {
	if i := strings.IndexByte(s, '\n'); i >= 0 {
		s = s[:i]
	}
	if len(s) > 120 {
		s = s[:120]
	}
	return s
}
