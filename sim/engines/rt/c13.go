package main

import (
	"crypto/sha256"
	"encoding/hex"
	"fmt"
	"sort"
	"strings"

	"goa.design/goa/v3/expr"
	"goa.design/goa/v3/verifsim"
	"verif/sim/engine"
)

// C13 (partly claimed, DESIGN.md 5): the only nondeterminism of Hash/Dup is
// map iteration order, the only history is copy-then-mutate.
//  - every answer is identical under sorted / reverse / seeded map orders;
//  - a copy is structurally equal and independent: a history of mutations on
//    the copy never changes a deep snapshot of the original;
//  - (workload oracle, no simulator leverage) declaration order of object
//    attributes and union alternatives does not change the hash; a changed leaf does.

type tfield struct {
	Name string
	T    *tdesc
	Meta [][2]string
	Pat  string
	Req  bool
}

type tdesc struct {
	Kind   string // prim | array | map | object | union | user
	Prim   expr.Primitive
	Elem   *tdesc
	Key    *tdesc
	Fields []*tfield
	User   int // index into the user type table
	Name   string
}

type tgen struct {
	t     *verifsim.Tape
	users []*tdesc // object descs of the user types (may reference each other: cycles)
	names []string
	isRT  []bool
	// pool: inline object descriptions without user types inside; a description drawn from it a second time is
	// built as ONE *expr.Object reachable twice (what Reference/Extend and shared inline payloads give goa)
	pool []*tdesc
}

func pureInline(d *tdesc) bool {
	if d == nil {
		return true
	}
	if d.Kind == "user" {
		return false
	}
	if !pureInline(d.Elem) || !pureInline(d.Key) {
		return false
	}
	for _, f := range d.Fields {
		if !pureInline(f.T) {
			return false
		}
	}
	return true
}

var c13prims = []expr.Primitive{expr.String, expr.Int, expr.Boolean, expr.Float64, expr.Bytes, expr.Any, expr.UInt32, expr.Int64}

func (g *tgen) meta() [][2]string {
	n := g.t.Pick("nmeta", 3, 2, 2, 2, 1)
	var m [][2]string
	keys := []string{"struct:field:name", "struct:field:type", "struct:field:proto", "struct:tag:json", "struct:field:external", "openapi:example", "struct:field:pointer"}
	off := g.t.Draw("meta-off", len(keys))
	for i := 0; i < n; i++ {
		m = append(m, [2]string{keys[(off+i)%len(keys)], fmt.Sprintf("v%d", g.t.Draw("meta-val", 3))})
	}
	return m
}

func (g *tgen) desc(depth int) *tdesc {
	k := g.t.Pick("tkind", 6, 2, 2, 3, 2, 3)
	if depth <= 0 && k != 0 && k != 5 {
		k = 0
	}
	switch k {
	case 1:
		return &tdesc{Kind: "array", Elem: g.desc(depth - 1)}
	case 2:
		return &tdesc{Kind: "map", Key: &tdesc{Kind: "prim", Prim: expr.String}, Elem: g.desc(depth - 1)}
	case 3:
		if len(g.pool) > 0 && g.t.Draw("reuse-object", 4) == 0 {
			return g.pool[g.t.Draw("which-pooled", len(g.pool))]
		}
		od := g.object(depth - 1)
		if pureInline(od) {
			g.pool = append(g.pool, od)
		}
		return od
	case 4:
		u := &tdesc{Kind: "union", Name: fmt.Sprintf("U%d", g.t.Draw("uname", 4))}
		n := 2 + g.t.Draw("nalts", 3)
		for i := 0; i < n; i++ {
			u.Fields = append(u.Fields, &tfield{Name: fmt.Sprintf("%c_alt", "zmakq"[i%5]), T: g.desc(depth - 1)})
		}
		return u
	case 5:
		if len(g.users) > 0 {
			return &tdesc{Kind: "user", User: g.t.Draw("uref", len(g.users))}
		}
	}
	return &tdesc{Kind: "prim", Prim: c13prims[g.t.Draw("prim", len(c13prims))]}
}

func (g *tgen) object(depth int) *tdesc {
	o := &tdesc{Kind: "object"}
	n := 1 + g.t.Draw("nfields", 4)
	names := []string{"delta", "alpha", "mike", "zulu", "bravo", "kilo"}
	off := g.t.Draw("fname-off", len(names))
	for i := 0; i < n; i++ {
		f := &tfield{Name: names[(off+i*5)%len(names)], T: g.desc(depth - 1), Meta: g.meta(), Req: g.t.Draw("req", 2) == 0}
		dup := false
		for _, x := range o.Fields {
			if x.Name == f.Name {
				dup = true
			}
		}
		if dup {
			continue
		}
		if g.t.Draw("pat", 4) == 0 {
			f.Pat = "^p[0-9]+$"
		}
		o.Fields = append(o.Fields, f)
	}
	return o
}

// build instantiates the description as goa expressions. perm permutes the
// declaration order of object attributes and union alternatives; leaf, when
// >= 0, changes the leaf-th primitive met to another primitive.
type builder struct {
	g     *tgen
	perm  bool
	leaf  int
	seen  int
	uts   []expr.UserType
	built []bool
	// variants for the "equal under the documented rules" oracle: rename gives the rename-th user type
	// another name, retag gives the retag-th object attribute another struct:field:name tag (-1: none)
	rename, retag int
	fields        int
	// unshare: build a description met twice as two objects (default: one object reachable twice)
	unshare bool
	objs    map[*tdesc]*expr.Object
}

func (b *builder) order(n int) []int {
	idx := make([]int, n)
	for i := range idx {
		idx[i] = i
	}
	if b.perm {
		for i, j := 0, n-1; i < j; i, j = i+1, j-1 {
			idx[i], idx[j] = idx[j], idx[i]
		}
		if n > 2 {
			idx[0], idx[1] = idx[1], idx[0]
		}
	}
	return idx
}

func (b *builder) att(f *tfield) *expr.AttributeExpr {
	a := &expr.AttributeExpr{Type: b.dt(f.T)}
	if len(f.Meta) > 0 {
		a.Meta = expr.MetaExpr{}
		for _, kv := range f.Meta {
			a.Meta[kv[0]] = append(a.Meta[kv[0]], kv[1])
		}
	}
	if f.Pat != "" {
		a.Validation = &expr.ValidationExpr{Pattern: f.Pat}
	}
	if req := requiredOf(f.T); len(req) > 0 {
		if a.Validation == nil {
			a.Validation = &expr.ValidationExpr{}
		}
		a.Validation.Required = req
	}
	return a
}

// requiredOf lists, in name order (so that declaration order plays no part), the required attributes of an object.
func requiredOf(d *tdesc) []string {
	if d == nil || d.Kind != "object" {
		return nil
	}
	var req []string
	for _, f := range d.Fields {
		if f.Req {
			req = append(req, f.Name)
		}
	}
	sort.Strings(req)
	return req
}

func (b *builder) dt(d *tdesc) expr.DataType {
	switch d.Kind {
	case "prim":
		p := d.Prim
		if b.leaf >= 0 {
			if b.seen == b.leaf {
				if p == expr.String {
					p = expr.Int
				} else {
					p = expr.String
				}
			}
			b.seen++
		}
		return p
	case "array":
		return &expr.Array{ElemType: &expr.AttributeExpr{Type: b.dt(d.Elem)}}
	case "map":
		return &expr.Map{KeyType: &expr.AttributeExpr{Type: b.dt(d.Key)}, ElemType: &expr.AttributeExpr{Type: b.dt(d.Elem)}}
	case "object":
		if po, ok := b.objs[d]; ok && !b.unshare {
			return po
		}
		o := &expr.Object{}
		if b.objs == nil {
			b.objs = map[*tdesc]*expr.Object{}
		}
		b.objs[d] = o
		for _, i := range b.order(len(d.Fields)) {
			f := d.Fields[i]
			a := b.att(f)
			if b.fields == b.retag {
				if a.Meta == nil {
					a.Meta = expr.MetaExpr{}
				}
				a.Meta["struct:field:name"] = []string{"Retagged"}
			}
			b.fields++
			o.Set(f.Name, a)
		}
		return o
	case "union":
		u := &expr.Union{TypeName: d.Name}
		for _, i := range b.order(len(d.Fields)) {
			f := d.Fields[i]
			u.Values = append(u.Values, &expr.NamedAttributeExpr{Name: f.Name, Attribute: b.att(f)})
		}
		return u
	case "user":
		return b.user(d.User)
	}
	panic("bad desc")
}

func (b *builder) user(i int) expr.UserType {
	if b.uts[i] != nil {
		return b.uts[i]
	}
	var ut expr.UserType
	base := &expr.UserTypeExpr{TypeName: b.g.names[i], AttributeExpr: &expr.AttributeExpr{}}
	if i == b.rename {
		base.TypeName += "Renamed"
	}
	if b.g.isRT[i] {
		ut = &expr.ResultTypeExpr{UserTypeExpr: base, Identifier: "application/vnd." + strings.ToLower(b.g.names[i])}
	} else {
		ut = base
	}
	b.uts[i] = ut // registered before the body is built: cycles close on it
	body := b.dt(b.g.users[i])
	at := &expr.AttributeExpr{Type: body, Meta: expr.MetaExpr{}}
	if req := requiredOf(b.g.users[i]); len(req) > 0 {
		at.Validation = &expr.ValidationExpr{Required: req}
	}
	for _, kv := range [][2]string{{"struct:field:name", "N" + b.g.names[i]}, {"struct:field:type", "T"}, {"struct:field:external", "E"}, {"type:generate:force", "x"}}[:1+i%4] {
		at.Meta[kv[0]] = []string{kv[1]}
	}
	ut.SetAttribute(at)
	return ut
}

// snap prints a type graph completely and deterministically (cycle safe).
func snap(dt expr.DataType, seen map[expr.UserType]int, sb *strings.Builder) {
	switch t := dt.(type) {
	case expr.Primitive:
		sb.WriteString(t.Name())
	case *expr.Array:
		sb.WriteString("[")
		snapAtt(t.ElemType, seen, sb)
		sb.WriteString("]")
	case *expr.Map:
		sb.WriteString("map<")
		snapAtt(t.KeyType, seen, sb)
		sb.WriteString(",")
		snapAtt(t.ElemType, seen, sb)
		sb.WriteString(">")
	case *expr.Object:
		sb.WriteString("{")
		for _, nat := range *t {
			sb.WriteString(nat.Name + ":")
			snapAtt(nat.Attribute, seen, sb)
			sb.WriteString(";")
		}
		sb.WriteString("}")
	case *expr.Union:
		sb.WriteString("union " + t.TypeName + "(")
		for _, nat := range t.Values {
			sb.WriteString(nat.Name + ":")
			snapAtt(nat.Attribute, seen, sb)
			sb.WriteString("|")
		}
		sb.WriteString(")")
	case expr.UserType:
		if n, ok := seen[t]; ok {
			fmt.Fprintf(sb, "^%d", n)
			return
		}
		seen[t] = len(seen)
		fmt.Fprintf(sb, "type#%d %s=", seen[t], t.Name())
		if rt, ok := t.(*expr.ResultTypeExpr); ok {
			sb.WriteString("rt(" + rt.Identifier + ")")
		}
		snapAtt(t.Attribute(), seen, sb)
	default:
		fmt.Fprintf(sb, "?%T", dt)
	}
}

func snapAtt(a *expr.AttributeExpr, seen map[expr.UserType]int, sb *strings.Builder) {
	if a == nil {
		sb.WriteString("nil")
		return
	}
	snap(a.Type, seen, sb)
	if len(a.Meta) > 0 {
		ks := make([]string, 0, len(a.Meta))
		for k := range a.Meta {
			ks = append(ks, k)
		}
		sort.Strings(ks)
		sb.WriteString("@meta(")
		for _, k := range ks {
			sb.WriteString(k + "=" + strings.Join(a.Meta[k], ",") + ";")
		}
		sb.WriteString(")")
	}
	if v := a.Validation; v != nil {
		fmt.Fprintf(sb, "@val(p=%q f=%q req=%v vals=%v", v.Pattern, v.Format, v.Required, v.Values)
		if v.Minimum != nil {
			fmt.Fprintf(sb, " min=%v", *v.Minimum)
		}
		if v.MinLength != nil {
			fmt.Fprintf(sb, " minlen=%v", *v.MinLength)
		}
		sb.WriteString(")")
	}
	if a.Description != "" {
		sb.WriteString("@desc(" + a.Description + ")")
	}
	if a.DefaultValue != nil {
		fmt.Fprintf(sb, "@def(%v)", a.DefaultValue)
	}
}

func snapshot(dt expr.DataType) string {
	var sb strings.Builder
	snap(dt, map[expr.UserType]int{}, &sb)
	return sb.String()
}

// sites collects the attributes reachable in a graph (cycle safe).
func c13sites(dt expr.DataType, seen map[expr.UserType]bool, out *[]*expr.AttributeExpr, objs *[]*expr.Object, uts *[]expr.UserType, unions *[]*expr.Union) {
	visitAtt := func(a *expr.AttributeExpr) {
		if a != nil {
			*out = append(*out, a)
			c13sites(a.Type, seen, out, objs, uts, unions)
		}
	}
	switch t := dt.(type) {
	case *expr.Array:
		visitAtt(t.ElemType)
	case *expr.Map:
		visitAtt(t.KeyType)
		visitAtt(t.ElemType)
	case *expr.Object:
		*objs = append(*objs, t)
		for _, nat := range *t {
			visitAtt(nat.Attribute)
		}
	case *expr.Union:
		*unions = append(*unions, t)
		for _, nat := range t.Values {
			visitAtt(nat.Attribute)
		}
	case expr.UserType:
		if seen[t] {
			return
		}
		seen[t] = true
		*uts = append(*uts, t)
		visitAtt(t.Attribute())
	}
}

var hashFlags = [][3]bool{{false, false, false}, {true, false, false}, {false, true, false}, {false, false, true}, {true, true, false}, {false, true, true}, {true, false, true}, {true, true, true}}

func allHashes(dt expr.DataType) string {
	var hs []string
	for _, f := range hashFlags {
		hs = append(hs, expr.Hash(dt, f[0], f[1], f[2]))
	}
	return strings.Join(hs, "\n")
}

func init() { engine.Register("C13", runC13) }

func runC13(t *verifsim.Tape, cfg engine.Config) *engine.Outcome {
	o := &engine.Outcome{Features: map[string]int{}}
	h := sha256.New()
	g := &tgen{t: t}
	nUsers := 1 + t.Draw("nusers", 4)
	for i := 0; i < nUsers; i++ {
		g.names = append(g.names, fmt.Sprintf("Type%c", 'A'+i))
		g.isRT = append(g.isRT, t.Draw("rt", 4) == 0)
		g.users = append(g.users, nil)
	}
	depth := 2 + t.Draw("depth", 4) // up to 5
	for i := range g.users {
		g.users[i] = g.object(depth - 1)
	}
	root := &tdesc{Kind: "user", User: 0}
	if t.Draw("root-kind", 3) == 0 {
		root = g.desc(depth)
	}
	mk := func(perm bool, leaf int) (expr.DataType, *builder) {
		b := &builder{g: g, perm: perm, leaf: leaf, uts: make([]expr.UserType, len(g.users)), rename: -1, retag: -1}
		return b.dt(root), b
	}
	mkVariant := func(rename, retag int) (expr.DataType, *builder) {
		b := &builder{g: g, leaf: -1, uts: make([]expr.UserType, len(g.users)), rename: rename, retag: retag}
		return b.dt(root), b
	}
	orig, _ := mk(false, -1)
	o.Features["graphs"]++
	o.Features["user_types"] += nUsers
	// ---- 1. same answer under every map order -----------------------------------------
	modes := []struct {
		m    verifsim.MapMode
		seed uint64
		name string
	}{{verifsim.MapSorted, 0, "sorted"}, {verifsim.MapReverse, 0, "reverse"}}
	for k := 0; k < 6; k++ {
		modes = append(modes, struct {
			m    verifsim.MapMode
			seed uint64
			name string
		}{verifsim.MapSeeded, t.Sub("maporder-seed"), fmt.Sprintf("seeded#%d", k)})
	}
	var ref, refSnapDup string
	for i, md := range modes {
		verifsim.SetIdleMapMode(md.m, md.seed)
		hs := allHashes(orig)
		dup := expr.Dup(orig)
		sd := snapshot(dup)
		verifsim.SetIdleMapMode(verifsim.MapRuntime, 0)
		o.Features["map_order_evaluations"]++
		if i == 0 {
			ref, refSnapDup = hs, sd
			continue
		}
		if hs != ref {
			cls := "object-or-user-type-meta"
			if strings.Contains(snapshot(orig), "union ") && firstDiffLine(ref, hs) == 0 {
				cls = "meta-or-union"
			}
			o.Violate("hash_depends_on_map_order", "hash_map_order:"+cls+fmt.Sprintf(":flags#%d", firstDiffLine(ref, hs)), "Hash of the same type differs between map orders sorted and %s (flag set %d):\n  %s\n  %s\n  type: %s", md.name, firstDiffLine(ref, hs), lineOf(ref, firstDiffLine(ref, hs)), lineOf(hs, firstDiffLine(ref, hs)), clipStr(snapshot(orig), 600))
			break
		}
		if sd != refSnapDup {
			o.Violate("dup_depends_on_map_order", "dup_map_order", "Dup of the same type differs between map orders sorted and %s", md.name)
			break
		}
	}
	fmt.Fprintf(h, "%s|", ref)
	// ---- 2. copies: equal, then independent under a history of mutations ---------------
	// (what goa itself does to types before copying them: required names removed in place when an attribute is
	// mapped to a header or a path parameter - the list keeps its capacity)
	emptied := map[*expr.AttributeExpr]bool{}
	if t.Draw("pre-empty-required", 3) == 0 {
		var pa []*expr.AttributeExpr
		c13sites(orig, map[expr.UserType]bool{}, &pa, new([]*expr.Object), new([]expr.UserType), new([]*expr.Union))
		for _, a := range pa {
			if a.Validation != nil && len(a.Validation.Required) > 0 {
				for _, n := range append([]string{}, a.Validation.Required...) {
					a.Validation.RemoveRequired(n)
				}
				emptied[a] = true
				o.Features["required_emptied_in_place"]++
			}
		}
	}
	before := snapshot(orig)
	beforeHash := allHashes(orig)
	cp := expr.Dup(orig)
	if snapshot(cp) != before {
		o.Violate("dup_not_equal", "dup_not_equal:snapshot", "Dup is not structurally identical to the original:\n  orig %s\n  dup  %s", clipStr(before, 500), clipStr(snapshot(cp), 500))
	}
	if !expr.Equal(orig, cp) {
		o.Violate("dup_not_equal", "dup_not_equal:Equal", "expr.Equal(original, Dup(original)) is false for %s", clipStr(before, 500))
	}
	// pointer disjointness
	var oa, ca []*expr.AttributeExpr
	var oo, co []*expr.Object
	var ou, cu []expr.UserType
	var un, cun []*expr.Union
	c13sites(orig, map[expr.UserType]bool{}, &oa, &oo, &ou, &un)
	c13sites(cp, map[expr.UserType]bool{}, &ca, &co, &cu, &cun)
	shared := map[*expr.AttributeExpr]bool{}
	for _, a := range oa {
		shared[a] = true
	}
	for _, a := range ca {
		if shared[a] {
			o.Violate("dup_shares_structure", "dup_shares:attribute", "an attribute expression is reachable from both the copy and the original (%s)", clipStr(before, 300))
			break
		}
	}
	nOps := 1 + t.Draw("nmut", 6)
	var ops []string
	// two-sided histories: an operation is applied to the copy or (one time in four) to the original, and
	// whichever side was NOT touched must read exactly as before; `before` follows the original's own changes
	for k := 0; k < nOps && len(ca) > 0; k++ {
		onOriginal := false // (the original is mutated too, but only at the very end of the run: see "two-sided" below)
		sa, so, su, sun := ca, co, cu, cun
		if onOriginal {
			sa, so, su, sun = oa, oo, ou, un
		}
		otherBefore := snapshot(cp)
		a := sa[t.Draw("mut-site", len(sa))]
		co, cu, cun := so, su, sun
		switch t.Draw("mut-op", 8) {
		case 7:
			if a.Validation == nil {
				a.Validation = &expr.ValidationExpr{}
			}
			a.Validation.AddRequired(fmt.Sprintf("added_%d", k))
			ops = append(ops, "add-required")
		case 0:
			a.Type = expr.Boolean
			ops = append(ops, "set-type")
		case 1:
			if a.Meta == nil {
				a.Meta = expr.MetaExpr{}
			}
			a.Meta["struct:field:name"] = []string{"Mutated"}
			ops = append(ops, "add-meta")
		case 2:
			if a.Validation == nil {
				a.Validation = &expr.ValidationExpr{}
			}
			a.Validation.Pattern = "mutated"
			a.Validation.Required = append(a.Validation.Required, "mutated")
			ops = append(ops, "change-validation")
		case 3:
			if len(co) > 0 {
				co[t.Draw("mut-obj", len(co))].Set("mutated_attr", &expr.AttributeExpr{Type: expr.String})
				ops = append(ops, "add-attribute")
			}
		case 4:
			if len(cu) > 0 {
				if ut, ok := cu[t.Draw("mut-ut", len(cu))].(*expr.UserTypeExpr); ok {
					ut.TypeName = "Renamed"
					ops = append(ops, "rename-user-type")
				}
			}
		case 5:
			if len(cun) > 0 {
				u := cun[t.Draw("mut-union", len(cun))]
				u.Values = append(u.Values, &expr.NamedAttributeExpr{Name: "mutated_alt", Attribute: &expr.AttributeExpr{Type: expr.Int}})
				ops = append(ops, "add-union-alternative")
			}
		default:
			a.Description = "mutated"
			for mk2 := range a.Meta {
				a.Meta[mk2] = append(a.Meta[mk2], "mutated")
				break
			}
			ops = append(ops, "append-meta-value")
		}
		o.Features["mutations"]++
		if len(ops) == 0 {
			continue
		}
		if onOriginal {
			ops[len(ops)-1] += "@original"
			o.Features["mutations_on_original"]++
			before, beforeHash = snapshot(orig), allHashes(orig)
			if now := snapshot(cp); now != otherBefore {
				o.Violate("copy_not_independent", "original_changes_copy:"+strings.TrimSuffix(ops[len(ops)-1], "@original"), "after %v (the last one on the ORIGINAL) the COPY changed:\n  before %s\n  after  %s", ops, clipStr(otherBefore, 500), clipStr(now, 500))
				break
			}
			continue
		}
		if now := snapshot(orig); now != before {
			o.Violate("copy_not_independent", "copy_not_independent:"+ops[len(ops)-1], "after %v on the COPY the ORIGINAL changed:\n  before %s\n  after  %s", ops, clipStr(before, 500), clipStr(now, 500))
			break
		}
	}
	if allHashes(orig) != beforeHash {
		o.Violate("copy_not_independent", "copy_not_independent:hash", "the original's hash changed after mutating the copy (%v)", ops)
	}
	// Equal is the structural comparison: it agrees with the hash taken under the flags the documentation gives it
	// (names and tags ignored), also between a type and an edited copy of it (which keep the same type id)
	if eq, hq := expr.Equal(orig, cp), expr.Hash(orig, false, true, true) == expr.Hash(cp, false, true, true); eq != hq {
		o.Violate("equal_disagrees_with_hash", fmt.Sprintf("equal_vs_hash:equal=%v", eq), "after %v on the copy: Equal(original, copy)=%v but their structural hashes are equal=%v", ops, eq, hq)
	}
	o.Features["equal_vs_hash_checked"]++
	// DupAtt on a reachable attribute
	if len(oa) > 0 {
		a := oa[t.Draw("dupatt-site", len(oa))]
		var sb1, sb2 strings.Builder
		snapAtt(a, map[expr.UserType]int{}, &sb1)
		d2 := expr.DupAtt(a)
		snapAtt(d2, map[expr.UserType]int{}, &sb2)
		if sb1.String() != sb2.String() {
			o.Violate("dup_not_equal", "dupatt_not_equal", "DupAtt differs from its argument:\n  %s\n  %s", clipStr(sb1.String(), 400), clipStr(sb2.String(), 400))
		}
		d2.Type = expr.Bytes
		if d2.Meta != nil {
			d2.Meta["struct:field:name"] = []string{"Mutated"}
		}
		if snapshot(orig) != before {
			o.Violate("copy_not_independent", "copy_not_independent:dupatt", "mutating DupAtt's result changed the original")
		}
	}
	// ---- 3. declaration order does not matter, a changed leaf does (workload oracle) ----
	permuted, _ := mk(true, -1)
	for fi, f := range hashFlags {
		o.Features["permutation_checked"]++
		if a, b := expr.Hash(orig, f[0], f[1], f[2]), expr.Hash(permuted, f[0], f[1], f[2]); a != b {
			cls := "object-attributes"
			if strings.Contains(before, "union ") {
				cls = "union-or-object"
			}
			o.Violate("hash_depends_on_declaration_order", "hash_declaration_order:"+cls, "the same type declared in another attribute/alternative order hashes differently (flag set %d):\n  %s\n  %s\n  type %s", fi, clipStr(a, 400), clipStr(b, 400), clipStr(before, 500))
			break
		}
	}
	// the same structure with every inline object built afresh at each place it occurs: hashes see structure, not
	// which pointers happen to be shared
	{
		ub := &builder{g: g, leaf: -1, uts: make([]expr.UserType, len(g.users)), rename: -1, retag: -1, unshare: true}
		unshared := ub.dt(root)
		if snapshot(unshared) == before {
			o.Features["sharing_checked"]++
			for fi, f := range hashFlags {
				if a, b := expr.Hash(orig, f[0], f[1], f[2]), expr.Hash(unshared, f[0], f[1], f[2]); a != b {
					o.Violate("hash_depends_on_sharing", fmt.Sprintf("hash_depends_on_sharing:flags#%d", fi), "two structurally identical types, one of which reaches an inline object through two attributes, hash differently (flag set %d):\n  %s\n  %s\n  type %s", fi, clipStr(a, 400), clipStr(b, 400), clipStr(before, 500))
					break
				}
			}
			if !expr.Equal(orig, unshared) {
				o.Violate("hash_depends_on_sharing", "equal_depends_on_sharing", "expr.Equal is false for two structurally identical types that differ in pointer sharing only: %s", clipStr(before, 500))
			}
		}
	}
	// count primitives to pick a leaf
	_, b0 := mk(false, 1<<30)
	if b0.seen > 0 {
		leaf := t.Draw("leaf", b0.seen)
		changed, _ := mk(false, leaf)
		if snapshot(changed) != before {
			o.Features["leaf_change_checked"]++
			if expr.Hash(orig, false, false, false) == expr.Hash(changed, false, false, false) && !rootIgnores(before) {
				o.Violate("hash_ignores_difference", "hash_ignores_leaf", "two types that differ in one leaf type have the same hash:\n  %s\n  %s", clipStr(before, 500), clipStr(snapshot(changed), 500))
			}
		}
	}
	// ---- 4. equal exactly when structurally equal under the rule each flag combination documents ----
	//   user type names count unless ignoreNames (and always when ignoreFields);
	//   struct:field:* tags of object attributes count unless ignoreTags
	_, bo := mkVariant(-1, -1)
	var builtUsers []int
	for i, u := range bo.uts {
		if u != nil {
			builtUsers = append(builtUsers, i)
		}
	}
	if len(builtUsers) > 0 {
		k := builtUsers[t.Draw("rename-which", len(builtUsers))]
		renamed, _ := mkVariant(k, -1)
		for fi, f := range hashFlags {
			a, b := expr.Hash(orig, f[0], f[1], f[2]), expr.Hash(renamed, f[0], f[1], f[2])
			switch {
			case f[0]: // ignoreFields: user types are opaque names; only the root's own name is certainly seen
				if root.Kind == "user" && root.User == k && a == b {
					o.Violate("hash_ignores_difference", fmt.Sprintf("hash_ignores_root_rename:flags#%d", fi), "the root user type renamed, ignoreFields set: same hash %s", clipStr(a, 300))
				}
			case f[1]: // ignoreNames
				o.Features["rename_equal_checked"]++
				if a != b {
					o.Violate("hash_differs_for_equal_types", fmt.Sprintf("hash_sees_ignored_name:flags=%v", f), "two types that differ only in the NAME of user type %s hash differently although ignoreNames is set (flags ignoreFields=%v ignoreNames=%v ignoreTags=%v):\n  %s\n  %s\n  type %s", g.names[k], f[0], f[1], f[2], clipStr(a, 400), clipStr(b, 400), clipStr(before, 500))
				}
			default:
				o.Features["rename_differs_checked"]++
				if a == b {
					o.Violate("hash_ignores_difference", fmt.Sprintf("hash_ignores_name:flags=%v", f), "two types that differ in the NAME of user type %s have the same hash although names count (flags ignoreFields=%v ignoreNames=%v ignoreTags=%v):\n  %s\n  type %s", g.names[k], f[0], f[1], f[2], clipStr(a, 400), clipStr(before, 500))
				}
			}
		}
	}
	if bo.fields > 0 {
		k := t.Draw("retag-which", bo.fields)
		retagged, _ := mkVariant(-1, k)
		for _, f := range hashFlags {
			if f[0] {
				continue // behind a user type nothing of its attributes is looked at
			}
			a, b := expr.Hash(orig, f[0], f[1], f[2]), expr.Hash(retagged, f[0], f[1], f[2])
			if f[2] {
				o.Features["retag_equal_checked"]++
				if a != b {
					o.Violate("hash_differs_for_equal_types", fmt.Sprintf("hash_sees_ignored_tag:flags=%v", f), "two types that differ only in a struct:field:name tag hash differently although ignoreTags is set (flags ignoreFields=%v ignoreNames=%v ignoreTags=%v):\n  %s\n  %s\n  type %s", f[0], f[1], f[2], clipStr(a, 400), clipStr(b, 400), clipStr(before, 500))
				}
			} else {
				o.Features["retag_differs_checked"]++
				if a == b {
					o.Violate("hash_ignores_difference", fmt.Sprintf("hash_ignores_tag:flags=%v", f), "two types that differ in a struct:field:name tag of object attribute #%d have the same hash although tags count (flags ignoreFields=%v ignoreNames=%v ignoreTags=%v):\n  %s\n  type %s", k, f[0], f[1], f[2], clipStr(a, 400), clipStr(before, 500))
				}
			}
		}
	}
	o.Nontrivial = true
	o.Distinct = hex.EncodeToString(h.Sum(nil))[:16]
	o.Digest = o.Distinct + fmt.Sprint(len(ops))
	o.Features["_evaluations"] = len(modes) + nOps + len(hashFlags) + 2
	// ---- 4. two-sided history, last because it changes the original: a fresh copy, then AddRequired / Meta appends
	// applied alternately to the original and to the copy; the side that was not touched must read as before
	{
		// likewise metadata: goa deletes keys from the Meta of copied attributes (struct:pkg:path ...), which can leave
		// an allocated but empty map behind
		if t.Draw("pre-empty-meta", 3) == 0 {
			var pa []*expr.AttributeExpr
			c13sites(orig, map[expr.UserType]bool{}, &pa, new([]*expr.Object), new([]expr.UserType), new([]*expr.Union))
			for _, a := range pa {
				if a.Meta != nil && t.Draw("empty-this-meta", 2) == 0 {
					for k := range a.Meta {
						delete(a.Meta, k)
					}
					o.Features["meta_emptied_in_place"]++
				}
			}
		}
		cp2 := expr.Dup(orig)
		var a1, a2 []*expr.AttributeExpr
		c13sites(orig, map[expr.UserType]bool{}, &a1, new([]*expr.Object), new([]expr.UserType), new([]*expr.Union))
		c13sites(cp2, map[expr.UserType]bool{}, &a2, new([]*expr.Object), new([]expr.UserType), new([]*expr.Union))
		if len(a1) == len(a2) && len(a1) > 0 {
			var pref []int
			for i, a := range a1 {
				if emptied[a] {
					pref = append(pref, i)
				}
			}
			i := 0
			for k := 0; k < 2+t.Draw("two-sided-n", 4); k++ {
				if k%2 == 0 { // both sides of a pair of steps work on the same attribute
					i = t.Draw("two-sided-site", len(a1))
					if len(pref) > 0 && t.Draw("two-sided-emptied", 4) != 0 {
						i = pref[t.Draw("two-sided-pref", len(pref))]
					}
				}
				side, other, who := a1[i], cp2, "original"
				if k%2 == 0 {
					side, other, who = a2[i], orig, "copy"
				}
				was := snapshot(other)
				if side.Validation == nil {
					side.Validation = &expr.ValidationExpr{}
				}
				side.Validation.AddRequired(fmt.Sprintf("added_%d_on_%s", k, who))
				for mk2 := range side.Meta {
					side.Meta[mk2] = append(side.Meta[mk2], fmt.Sprintf("v%d_%s", k, who))
					break
				}
				if side.Meta != nil {
					side.Meta[fmt.Sprintf("added:%d:%s", k, who)] = []string{"x"} // (what MetaExpr's setters do: write into the map that is there)
				}
				o.Features["two_sided_mutations"]++
				if now := snapshot(other); now != was {
					o.Violate("copy_not_independent", "two_sided:"+who, "step %d: AddRequired/append-meta on the %s changed the other side:\n  before %s\n  after  %s", k, who, clipStr(was, 500), clipStr(now, 500))
					break
				}
			}
		}
	}
	o.Sample = map[string]any{"type": clipStr(before, 700), "mutations_on_copy": ops, "map_orders": len(modes)}
	return o
}

// rootIgnores: a recursive reference hashes through the memo of the object
// being hashed, so a leaf that is only reachable behind a cycle entry may
// legitimately not contribute twice; not judged.
func rootIgnores(s string) bool { return strings.Contains(s, "^") }

func firstDiffLine(a, b string) int {
	la, lb := strings.Split(a, "\n"), strings.Split(b, "\n")
	for i := range la {
		if i >= len(lb) || la[i] != lb[i] {
			return i
		}
	}
	return 0
}

func lineOf(s string, i int) string {
	l := strings.Split(s, "\n")
	if i < len(l) {
		return clipStr(l[i], 500)
	}
	return ""
}

func clipStr(s string, n int) string {
	if len(s) > n {
		return s[:n] + "..."
	}
	return s
}
