package main

import (
	"context"
	"crypto/sha256"
	"encoding/gob"
	"encoding/hex"
	"encoding/json"
	"encoding/xml"
	"bytes"
	"fmt"
	"net/http"
	"net/url"
	"strings"

	goahttp "goa.design/goa/v3/http"
	httpmw "goa.design/goa/v3/http/middleware"
	"goa.design/goa/v3/verifsim"
	"verif/sim/engine"
	"verif/sim/simnet"
)

// C16: URL builder <-> SimNet wire form <-> goa muxer. A reference router
// (segment-wise matching on the escaped path) says which registered patterns
// a request matches and which values the wildcards must yield.

type seg struct {
	Lit  string
	Var  string
	Star bool
}

type c16pattern struct {
	Method string
	Segs   []seg
	Text   string // as registered
}

func (p c16pattern) build(vals map[string]string) string {
	var b strings.Builder
	for _, s := range p.Segs {
		b.WriteByte('/')
		switch {
		case s.Star:
			// a catch-all takes the rest of the path: slashes in the value are
			// path separators the client put there
			parts := strings.Split(vals[s.Var], "/")
			for i, x := range parts {
				parts[i] = url.PathEscape(x)
			}
			b.WriteString(strings.Join(parts, "/"))
		case s.Var != "":
			b.WriteString(url.PathEscape(vals[s.Var]))
		default:
			b.WriteString(s.Lit)
		}
	}
	if len(p.Segs) == 0 {
		return "/"
	}
	return b.String()
}

// match is the reference matcher on the escaped path.
func (p c16pattern) match(method, escPath string) (map[string]string, bool) {
	if method != p.Method {
		return nil, false
	}
	if len(p.Segs) == 0 {
		return map[string]string{}, escPath == "/"
	}
	if !strings.HasPrefix(escPath, "/") {
		return nil, false
	}
	rest := escPath[1:]
	vals := map[string]string{}
	for i, s := range p.Segs {
		if s.Star {
			u, err := url.PathUnescape(rest)
			if err != nil {
				u = rest
			}
			vals[s.Var] = u
			return vals, true
		}
		var cur string
		last := i == len(p.Segs)-1
		if j := strings.IndexByte(rest, '/'); j >= 0 {
			if last {
				return nil, false
			}
			cur, rest = rest[:j], rest[j+1:]
		} else {
			if !last {
				return nil, false
			}
			cur, rest = rest, ""
		}
		if s.Var != "" {
			// chi lets {name} match an empty segment ("//"): such URLs are
			// ambiguous and any pattern that can be read into them is accepted
			u, err := url.PathUnescape(cur)
			if err != nil {
				u = cur
			}
			vals[s.Var] = u
		} else if cur != s.Lit {
			return nil, false
		}
	}
	return vals, true
}

var c16lits = []string{"a", "b", "users", "files", "v1", "x-y", "items"}
var c16methods = []string{"GET", "POST", "PUT", "DELETE"}

func pathValue(t *verifsim.Tape, star bool) string {
	pool := []string{"a", "b", "Z", "0", "9", "-", ".", "_", "~", " ", "%", "%2F", "%41", "%zz", "+", "&", "=", "?", "#", ";", ":", "@", "é", "世", "😀", "\"", "<", "{", "}", "|", "\\", "^", "`", "[", "]", "!", "$", "'", "(", ")", "*", ","}
	pool = append(pool, "/")
	if star {
		pool = append(pool, "/", "/")
	}
	n := 1 + t.Draw("vlen", 6)
	if star && t.Draw("emptystar", 6) == 0 {
		return ""
	}
	var b strings.Builder
	for i := 0; i < n; i++ {
		b.WriteString(pool[t.Draw("vch", len(pool))])
	}
	v := b.String()
	if !star {
		if v == "." || v == ".." {
			v += "a"
		}
	}
	return v
}

type c16hit struct {
	handler  int
	vars     map[string]string
	resolved []string // pattern reported, in call order
	phase    []string // before-next | after-next | handler
	mws      []string
	mwVars   []map[string]string
	again    []map[string]string // what further Vars calls by the same handler returned
}

func init() { engine.Register("C16", runC16) }

func runC16(t *verifsim.Tape, cfg engine.Config) *engine.Outcome {
	o := &engine.Outcome{Features: map[string]int{}}
	verifsim.SetIdleTape(t)
	defer verifsim.SetIdleTape(nil)
	h := sha256.New()
	// --- pattern set ----------------------------------------------------------
	nPat := 1 + t.Draw("npat", 6)
	var pats []c16pattern
	seen := map[string]bool{}
	// wildcard names come from a pool (unique within a pattern): the same path shape mounted under
	// another method usually names its wildcards differently (GET /files/{*path}, PUT /files/{*filename})
	varNames := []string{"v1", "id", "name", "rest", "path", "file", "key", "p"}
	type twin struct {
		src c16pattern
		at  int // the two wildcards src.Segs[at], src.Segs[at+1] became the merged pattern's Segs[at]
	}
	twinOf := map[int]twin{} // index of a merged pattern -> the pattern it was merged from
	for attempts := 0; len(pats) < nPat && attempts < 40; attempts++ {
		var p c16pattern
		var pendingTwin *twin
		p.Method = c16methods[t.Pick("method", 4, 2, 1, 1)]
		used := map[string]bool{}
		fresh := func() string {
			v := varNames[t.Draw("varname", len(varNames))]
			for used[v] {
				v += "x"
			}
			used[v] = true
			return v
		}
		if len(pats) > 0 && t.Draw("merged-twin", 5) == 0 {
			// an earlier pattern with two adjacent single-segment wildcards merged into one: /files/{dir}/{name}
			// and /files/{name} - a value containing an (escaped) slash makes the two URLs equal once decoded
			src := pats[t.Draw("twin-of", len(pats))]
			merged, at := false, -1
			p.Method = src.Method
			for i := 0; i < len(src.Segs); i++ {
				sg := src.Segs[i]
				if !merged && sg.Var != "" && !sg.Star && i+1 < len(src.Segs) && src.Segs[i+1].Var != "" && !src.Segs[i+1].Star {
					p.Segs = append(p.Segs, seg{Var: fresh()})
					at = i
					i++
					merged = true
					continue
				}
				if sg.Var != "" {
					sg.Var = fresh()
				}
				p.Segs = append(p.Segs, sg)
			}
			if merged {
				o.Features["merged_twin_patterns"]++
				pendingTwin = &twin{src, at}
			}
		} else if len(pats) > 0 && t.Draw("sibling", 3) == 0 {
			// the shape of an earlier pattern under another method, wildcards renamed
			src := pats[t.Draw("sibling-of", len(pats))]
			for _, sg := range src.Segs {
				if sg.Var != "" {
					sg.Var = fresh()
				}
				p.Segs = append(p.Segs, sg)
			}
			o.Features["sibling_patterns"]++
		} else {
			n := t.Draw("nseg", 5)
			for i := 0; i < n; i++ {
				switch k := t.Draw("segk", 5); {
				case k < 3:
					p.Segs = append(p.Segs, seg{Lit: c16lits[t.Draw("lit", len(c16lits))]})
				case k == 3 || i < n-1:
					p.Segs = append(p.Segs, seg{Var: fresh()})
				default:
					p.Segs = append(p.Segs, seg{Var: fresh(), Star: true})
				}
			}
		}
		var b strings.Builder
		for _, s := range p.Segs {
			switch {
			case s.Star:
				b.WriteString("/{*" + s.Var + "}")
			case s.Var != "":
				b.WriteString("/{" + s.Var + "}")
			default:
				b.WriteString("/" + s.Lit)
			}
		}
		p.Text = b.String()
		if p.Text == "" {
			p.Text = "/"
		}
		// chi refuses a second registration that differs only in wildcard
		// names; shapes are kept unique per method
		shape := p.Method + " " + shapeOf(p)
		if seen[shape] {
			continue
		}
		seen[shape] = true
		if pendingTwin != nil {
			twinOf[len(pats)] = *pendingTwin
		}
		pats = append(pats, p)
	}
	// --- registration history -------------------------------------------------
	mux := goahttp.NewMuxer()
	var cur *c16hit
	mwCount := 0
	early := t.Draw("mw-resolves-before-next", 2) == 0
	earlyVars := t.Draw("mw-vars-before-next", 2) == 0
	late := t.Draw("mw-resolves-after-next", 2) == 0
	addMW := func() {
		id := fmt.Sprintf("mw%d", mwCount)
		mux.Use(func(next http.Handler) http.Handler {
			return http.HandlerFunc(func(w http.ResponseWriter, r *http.Request) {
				if cur != nil {
					cur.mws = append(cur.mws, id)
					if early {
						cur.resolved = append(cur.resolved, mux.ResolvePattern(r))
						cur.phase = append(cur.phase, "before-next")
						if earlyVars {
							cur.mwVars = append(cur.mwVars, mux.Vars(r))
						}
					}
				}
				next.ServeHTTP(w, r)
				if cur != nil && late {
					cur.resolved = append(cur.resolved, mux.ResolvePattern(r))
					cur.phase = append(cur.phase, "after-next")
				}
			})
		})
		mwCount++ // not reached when Use panics
	}
	var history []string
	// goa's own chi middleware: transparent for every request that matches a pattern, redirects
	// (301) a request that only matches with its trailing slash toggled
	smart := t.Draw("smart-redirect-slashes", 4) == 0
	if smart {
		mux.Use(httpmw.SmartRedirectSlashes)
		history = append(history, "use SmartRedirectSlashes")
		o.Features["smart_redirect_mounted"]++
	}
	nBefore := t.Draw("mw-before", 3)
	for i := 0; i < nBefore; i++ {
		addMW()
		history = append(history, "use")
	}
	// a handler may ask for its variables more than once (goa's Debug middleware mounted on a handler reads them,
	// then the generated decoder reads them again)
	varsCalls := t.Pick("handler-vars-calls", 3, 2, 1)
	var regPanic any
	func() {
		defer func() { regPanic = recover() }()
		for i, p := range pats {
			i := i
			mux.Handle(p.Method, p.Text, func(w http.ResponseWriter, r *http.Request) {
				if cur != nil {
					cur.handler = i
					cur.vars = mux.Vars(r)
					for k := 0; k < varsCalls; k++ {
						cur.again = append(cur.again, mux.Vars(r))
					}
					cur.resolved = append(cur.resolved, mux.ResolvePattern(r))
					cur.phase = append(cur.phase, "handler")
				}
				w.WriteHeader(204)
			})
			history = append(history, "handle "+p.Method+" "+p.Text)
			if t.Draw("mw-between", 6) == 0 && i < len(pats)-1 {
				// chi panics when Use follows a route on the same mux: the
				// property's quantifier has middlewares registered "before and
				// after handlers", goa's muxer is expected to cope or refuse
				// loudly, not misroute; recorded below
				func() {
					defer func() {
						if p := recover(); p != nil {
							o.Features["use_after_handle_panics"]++
						}
					}()
					addMW()
					history = append(history, "use")
				}()
			}
		}
	}()
	if regPanic != nil {
		o.Violate("register_panic", "register_panic", "registering %v panicked: %v", history, regPanic)
		return o
	}
	net := &simnet.Net{Tape: t, Handler: mux, Cfg: simnet.Config{Chunking: true, HeaderNoise: 200}}
	// --- requests ---------------------------------------------------------------
	nReq := 12
	if cfg.Tier == "thorough" {
		nReq = 40
	}
	var samples []map[string]any
	var forced *struct {
		idx  int
		vals map[string]string
	}
	for ri := 0; ri < nReq; ri++ {
		hit := &c16hit{handler: -1}
		var method, path string
		var want map[string]string
		wantIdx := -1
		unmatched := t.Draw("unmatched", 5) == 0
		if forced != nil {
			// the second request of a twin pair (see below)
			unmatched = false
			wantIdx, want = forced.idx, forced.vals
			method, path = pats[wantIdx].Method, pats[wantIdx].build(want)
			forced = nil
		} else if !unmatched {
			wantIdx = t.Draw("which", len(pats))
			p := pats[wantIdx]
			want = map[string]string{}
			for _, s := range p.Segs {
				if s.Var != "" {
					want[s.Var] = pathValue(t, s.Star)
				}
			}
			if tw, ok := twinOf[wantIdx]; ok && t.Draw("twin-pair", 2) == 0 {
				// a pair of requests whose URLs are equal once decoded: this one puts "u/v" into the merged wildcard,
				// the next one puts u and v into the two wildcards of the pattern it was merged from
				src := tw.src
				sv := map[string]string{}
				for i, sg := range src.Segs {
					switch {
					case i == tw.at:
						u, v := strings.ReplaceAll(pathValue(t, false), "/", "-"), strings.ReplaceAll(pathValue(t, false), "/", "_")
						sv[sg.Var], sv[src.Segs[i+1].Var] = u, v
						want[p.Segs[tw.at].Var] = u + "/" + v
					case i == tw.at+1:
					case sg.Var != "" && i < tw.at:
						sv[sg.Var] = want[p.Segs[i].Var]
					case sg.Var != "":
						sv[sg.Var] = want[p.Segs[i-1].Var]
					}
				}
				for si, sp := range pats {
					if sp.Text == src.Text && sp.Method == src.Method {
						forced = &struct {
							idx  int
							vals map[string]string
						}{si, sv}
					}
				}
				o.Features["twin_pairs"]++
			}
			method, path = p.Method, p.build(want)
		} else {
			method = c16methods[t.Draw("method", 4)]
			n := 1 + t.Draw("nseg", 4)
			var b strings.Builder
			for i := 0; i < n; i++ {
				b.WriteString("/" + []string{"nope", "zz", "a", "users", "q"}[t.Draw("ulit", 5)])
			}
			path = b.String()
			if t.Draw("unmatched-by-slash", 3) == 0 {
				// a URL of a registered pattern with one slash too many
				p := pats[t.Draw("which", len(pats))]
				vals := map[string]string{}
				for _, s := range p.Segs {
					if s.Var != "" {
						vals[s.Var] = pathValue(t, false)
					}
				}
				method, path = p.Method, p.build(vals)+"/"
			}
		}
		// reference verdict
		var matches []int
		strictMatches := 0 // matches that do not read a single-segment wildcard as the empty string
		for i, p := range pats {
			if vals, ok := p.match(method, path); ok {
				matches = append(matches, i)
				strict := true
				for _, sg := range p.Segs {
					if sg.Var != "" && !sg.Star && vals[sg.Var] == "" {
						strict = false
					}
				}
				if strict {
					strictMatches++
				}
			}
		}
		// with SmartRedirectSlashes mounted: does the path match once its trailing slash is toggled?
		// (a single-segment wildcard read as EMPTY is the ambiguous case: redirecting is demanded only for an
		// unambiguous match of the toggled path, and tolerated whenever the toggled path can be read into a pattern)
		toggledMatches, toggledLoosely := false, false
		if smart && len(path) > 1 {
			tp := path + "/"
			if strings.HasSuffix(path, "/") {
				tp = path[:len(path)-1]
			}
			for _, p := range pats {
				if vals, ok := p.match(method, tp); ok {
					toggledLoosely = true
					strict := true
					for _, sg := range p.Segs {
						if sg.Var != "" && !sg.Star && vals[sg.Var] == "" {
							strict = false
						}
					}
					if strict && len(matches) == 0 {
						toggledMatches = true
					}
				}
			}
		}
		pathMatchesOtherMethod := false
		if len(matches) == 0 {
			for _, p := range pats {
				for _, m := range c16methods {
					if _, ok := (c16pattern{Method: m, Segs: p.Segs}).match(m, path); ok {
						pathMatchesOtherMethod = true
					}
				}
			}
		}
		ex := &simnet.Exchange{}
		req, err := http.NewRequestWithContext(simnet.WithExchange(context.Background(), ex), method, "http://sim"+path, nil)
		if err != nil {
			o.Features["unbuildable_url"]++
			continue
		}
		acc, hasAcc, accClass := genAccept(t)
		if hasAcc {
			req.Header["Accept"] = []string{acc}
		}
		cur = hit
		resp, derr := net.Do(req)
		cur = nil
		fmt.Fprintf(h, "%s %s -> %d %v;", method, path, hit.handler, hit.vars)
		sig := "route"
		if derr != nil {
			o.Violate("transport_error", sig, "%s %s: %v", method, path, derr)
			continue
		}
		if ex.HandlerPanic != nil {
			o.Violate("dispatch_panic", "dispatch_panic", "%s %s panicked: %v\n%s", method, path, ex.HandlerPanic, ex.PanicStack)
			continue
		}
		if len(samples) < 3 {
			samples = append(samples, map[string]any{"patterns": history, "request": method + " " + path, "want_values": want, "got_handler": hit.handler, "got_vars": hit.vars, "resolved": hit.resolved, "status": resp.StatusCode})
		}
		switch {
		case smart && toggledLoosely && !toggledMatches && resp.StatusCode == 301 && hit.handler == -1:
			o.Features["smart_redirect_ambiguous_url"]++ // tolerated, see above
		case len(matches) > 0:
			o.Features["matched_requests"]++
			if len(matches) > 1 {
				o.Features["ambiguous_requests"]++
			}
			ok := false
			for _, m := range matches {
				if m == hit.handler {
					ok = true
				}
			}
			if !ok && hit.handler == -1 && strictMatches == 0 && (resp.StatusCode == 404 || resp.StatusCode == 405) {
				o.Features["ambiguous_empty_segment_unrouted"]++ // "/a/a/" read as /{x}/{y}/{z} with z empty: either reading is accepted
				continue
			}
			if !ok {
				built := "(none)"
				if wantIdx >= 0 {
					built = pats[wantIdx].Text
				}
				o.Violate("wrong_handler", "wrong_handler", "%s %s built from pattern %q reached handler %d (status %d); reference matches %v; patterns %v", method, path, built, hit.handler, resp.StatusCode, matches, history)
				continue
			}
			ref, _ := pats[hit.handler].match(method, path)
			if hit.handler == wantIdx {
				ref = want
			}
			got := hit.vars
			if got == nil {
				got = map[string]string{}
			}
			ctxNote := fmt.Sprintf("early-resolve=%v", early && mwCount > 0)
			// an empty catch-all may be reported as a missing entry (reads as "")
			extra := false
			for k := range got {
				if _, ok := ref[k]; !ok {
					extra = true
				}
			}
			if extra {
				o.Violate("vars_mismatch", "vars:unknown-key,"+ctxNote, "%s %s (pattern %q): Vars=%q, expected %q", method, path, pats[hit.handler].Text, got, ref)
			} else {
				for k, v := range ref {
					if gv := got[k]; gv != v {
						o.Violate("vars_mismatch", varSig(ref, got)+","+ctxNote, "%s %s (pattern %q): Vars[%s]=%q, client put %q", method, path, pats[hit.handler].Text, k, gv, v)
						break
					}
				}
			}
			for _, av := range hit.again {
				o.Features["repeated_vars_checked"]++
				for k, v := range ref {
					if gv := av[k]; gv != v {
						o.Violate("vars_mismatch", varSig(ref, av)+",repeated-call", "%s %s (pattern %q): Vars[%s]=%q when the handler asks again, client put %q", method, path, pats[hit.handler].Text, k, gv, v)
						break
					}
				}
			}
			for _, mv := range hit.mwVars {
				o.Features["mw_vars_checked"]++
				for k, v := range ref {
					if gv := mv[k]; gv != v {
						o.Violate("vars_mismatch", varSig(ref, mv)+",in-middleware", "%s %s (pattern %q): Vars[%s]=%q inside a middleware, client put %q", method, path, pats[hit.handler].Text, k, gv, v)
						break
					}
				}
			}
			for ri, rp := range hit.resolved {
				o.Features["resolve_checked_"+hit.phase[ri]]++
				if rp != pats[hit.handler].Text {
					o.Violate("resolve_pattern", "resolve_pattern:"+hit.phase[ri]+","+ctxNote, "%s %s: ResolvePattern=%q (%s, call %d of %v), registered pattern %q (history %v)", method, path, rp, hit.phase[ri], ri, hit.phase, pats[hit.handler].Text, history)
					break
				}
			}
			if len(hit.mws) != mwCount {
				o.Violate("middleware_skipped", "middleware_skipped", "%s %s: middlewares run %v, registered %d (history %v)", method, path, hit.mws, mwCount, history)
			}
		case toggledMatches:
			o.Features["smart_redirect_expected"]++
			if hit.handler != -1 {
				o.Violate("wrong_handler", "wrong_handler:smart-redirect", "%s %s matches no pattern but reached handler %d", method, path, hit.handler)
			} else if resp.StatusCode != 301 {
				o.Violate("smart_redirect", "smart_redirect:status", "%s %s matches a pattern once the trailing slash is toggled: status %d, want 301 (history %v)", method, path, resp.StatusCode, history)
			} else {
				// the redirect leads to the same URL with the slash toggled: same escaped path, so that following it
				// yields the values the client put there
				tp := path + "/"
				if strings.HasSuffix(path, "/") {
					tp = path[:len(path)-1]
				}
				o.Features["smart_redirect_location_checked"]++
				if loc := ex.RespHeader.Get("Location"); loc != "//sim"+tp {
					o.Violate("smart_redirect", "smart_redirect:location", "%s %s redirected to %q, want %q", method, path, loc, "//sim"+tp)
				}
			}
		case smart && resp.StatusCode == 301 && hit.handler == -1 && !pathMatchesOtherMethod:
			o.Violate("smart_redirect", "smart_redirect:unexpected", "%s %s was redirected to %q although toggling its trailing slash matches no pattern (history %v)", method, path, ex.RespHeader.Get("Location"), history)
		case !pathMatchesOtherMethod:
			o.Features["unmatched_requests"]++
			o.Features["notfound_accept_"+accClass]++
			if hit.handler != -1 {
				o.Violate("wrong_handler", "wrong_handler", "%s %s matches no pattern but reached handler %d", method, path, hit.handler)
				continue
			}
			if resp.StatusCode != 404 {
				o.Violate("notfound_status", "notfound_status", "%s %s: status %d, want 404", method, path, resp.StatusCode)
				continue
			}
			var er goahttp.ErrorResponse
			ct := ex.RespHeader.Get("Content-Type")
			var perr error
			switch mediaClass(ct) {
			case "json":
				perr = json.Unmarshal(ex.RespBody, &er)
			case "xml":
				perr = xml.Unmarshal(ex.RespBody, &er)
			case "gob":
				perr = gob.NewDecoder(bytes.NewReader(ex.RespBody)).Decode(&er)
			default:
				perr = fmt.Errorf("body is %q under Content-Type %q: not an error response", clip(ex.RespBody), ct)
			}
			if perr != nil || er.Name == "" || er.Message == "" {
				o.Violate("notfound_body", "notfound_body:"+mediaClass(ct), "%s %s with Accept %q: 404 body not a well-formed error response (%v): Content-Type %q body %q", method, path, acc, perr, ct, clip(ex.RespBody))
			}
		default:
			o.Features["method_not_allowed_requests"]++ // not covered by the property
		}
	}
	o.Nontrivial = len(pats) > 0
	o.Distinct = hex.EncodeToString(h.Sum(nil))[:16]
	o.Digest = o.Distinct
	o.Features["patterns"] = len(pats)
	o.Features["middlewares"] = mwCount
	o.Features["_evaluations"] = nReq
	o.Sample = samples
	return o
}

func shapeOf(p c16pattern) string {
	var b strings.Builder
	for _, s := range p.Segs {
		switch {
		case s.Star:
			b.WriteString("/*")
		case s.Var != "":
			b.WriteString("/{}")
		default:
			b.WriteString("/" + s.Lit)
		}
	}
	return b.String()
}

// varSig classifies a Vars mismatch by the character class that went wrong.
func varSig(ref, got map[string]string) string {
	for k, v := range ref {
		if got[k] != v {
			for _, c := range []string{"%", "/", "+", " ", "?", "#", ";"} {
				if strings.Contains(v, c) {
					return "vars:value-contains-" + c
				}
			}
			if v == "" {
				return "vars:empty"
			}
			return "vars:other"
		}
	}
	return "vars:count"
}
