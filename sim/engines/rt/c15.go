package main

import (
	"bytes"
	"context"
	"crypto/sha256"
	"encoding/gob"
	"encoding/hex"
	"encoding/json"
	"encoding/xml"
	"errors"
	"fmt"
	"io"
	"mime"
	"net/http"
	"reflect"
	"strings"

	goahttp "goa.design/goa/v3/http"
	goa "goa.design/goa/v3/pkg"
	"goa.design/goa/v3/verifsim"
	"verif/sim/engine"
	"verif/sim/simnet"
)

// C15: server-side encoder and client-side decoder (and the reverse for
// requests) talk through SimNet; what one side wrote under the Content-Type it
// announced must decode on the other side to the original value.

type c15Struct struct {
	XMLName xml.Name `json:"-" xml:"item"`
	A       string   `json:"a" xml:"a"`
	N       int      `json:"n" xml:"n"`
	L       []string `json:"l,omitempty" xml:"l"`
}

type c15case struct {
	Dir       string `json:"dir"` // response | request
	Accept    string `json:"accept"`
	HasAccept bool   `json:"has_accept"`
	AccClass  string `json:"accept_class"`
	CT        string `json:"designed_ct,omitempty"`
	CTClass   string `json:"ct_class,omitempty"`
	Preset    string `json:"preset,omitempty"`
	ValKind   string `json:"value_kind"`
	ReqCT     string `json:"request_ct,omitempty"`
	ReqClass  string `json:"request_ct_class,omitempty"`
	Fault     string `json:"fault,omitempty"`
}

var supportedMT = []string{"application/json", "application/xml", "application/gob", "text/html", "text/plain"}

func textVal(t *verifsim.Tape) string {
	// valid UTF-8 and valid XML characters only (XML cannot carry the others,
	// JSON replaces invalid UTF-8): what the formats can carry, not more.
	pool := []string{"a", "B", "z", "0", " ", "é", "ß", "世", "界", "<", ">", "&", "\"", "'", "/", "%", "+", "\n", "\t", "😀", "{", "}", ",", ":"}
	n := t.Draw("textlen", 10)
	var b strings.Builder
	for i := 0; i < n; i++ {
		b.WriteString(pool[t.Draw("textch", len(pool))])
	}
	return b.String()
}

// acceptElement is one media range with optional parameters.
func acceptElement(t *verifsim.Tape) string {
	var mt string
	switch t.Draw("acc-el", 8) {
	case 0, 1, 2, 3:
		mt = supportedMT[t.Draw("sup", len(supportedMT))]
	case 4:
		mt = []string{"*/*", "application/*", "text/*"}[t.Draw("wild", 3)]
	case 5:
		mt = "application/vnd.api+" + []string{"json", "xml", "gob"}[t.Draw("suffix", 3)]
	case 6:
		if t.Draw("unsup-lookalike", 2) == 0 {
			mt = lookalikeMT(t)
		} else {
			mt = []string{"image/png", "application/pdf", "application/xhtml+xml"}[t.Draw("unsup", 3)]
		}
	default:
		m := supportedMT[t.Draw("sup", len(supportedMT))]
		mt = strings.ToUpper(m[:1]) + m[1:5] + strings.ToUpper(m[5:])
	}
	switch t.Draw("acc-par", 9) {
	case 8:
		mt += []string{";q=0", "; q=0.0", ";q=1", "; q=1.000", ";Q=0.5"}[t.Draw("qedge", 5)]
	case 0:
		mt += ";q=0." + string("123456789"[t.Draw("q", 9)])
	case 1:
		mt += "; q=0." + string("123456789"[t.Draw("q", 9)])
	case 2:
		mt += "; charset=utf-8"
	case 3:
		mt += "; charset=utf-8; q=0.5"
	case 4:
		mt += []string{"; q", ";", "; =1", ";q=", "; level=1;"}[t.Draw("badpar", 5)]
	}
	return mt
}

func genAccept(t *verifsim.Tape) (val string, present bool, class string) {
	sup := func() string { return supportedMT[t.Draw("sup", len(supportedMT))] }
	switch t.Draw("accept", 13) {
	case 0:
		return "", false, "absent"
	case 1:
		return sup(), true, "exact"
	case 2:
		return sup() + "; charset=utf-8", true, "param"
	case 3:
		if t.Draw("qedge-single", 3) == 0 {
			return sup() + []string{";q=0", "; q=0.0", ";q=1"}[t.Draw("qedge", 3)], true, "qvalue"
		}
		return sup() + ";q=0." + string("123456789"[t.Draw("q", 9)]), true, "qvalue"
	case 4:
		return sup() + ", " + sup() + ";q=0.5", true, "list"
	case 5:
		return []string{"*/*", "application/*", "text/*"}[t.Draw("wild", 3)], true, "wildcard"
	case 6:
		return "application/vnd.api+" + []string{"json", "xml", "gob"}[t.Draw("suffix", 3)], true, "suffix"
	case 7:
		m := sup()
		return strings.ToUpper(m[:1]) + m[1:5] + strings.ToUpper(m[5:]), true, "mixedcase"
	case 8:
		if t.Draw("unsup-lookalike", 2) == 0 {
			return lookalikeMT(t), true, "unsupported"
		}
		return []string{"image/png", "application/pdf", "application/x-www-form-urlencoded"}[t.Draw("unsup", 3)], true, "unsupported"
	case 9:
		return []string{";;;", "a/b/c", "json", "application/", "/", "application/json;", ",", "q=1"}[t.Draw("garbage", 8)], true, "garbage"
	case 10, 11:
		// composed: 1-4 media ranges, each with optional (possibly malformed) parameters
		n := 1 + t.Draw("acc-n", 4)
		els := make([]string, n)
		for i := range els {
			els[i] = acceptElement(t)
		}
		return strings.Join(els, []string{", ", ","}[t.Draw("acc-sep", 2)]), true, "composed"
	default:
		return "", true, "empty"
	}
}

// lookalikeMT: media types that are NOT one of the supported ones but share a prefix, a
// suffix or a family with them. Whatever the library decides to do with one of these, both
// ends have to decide the same.
var lookalikes = []string{"text/csv", "text/xml", "text/tab-separated-values", "text/markdown", "text/plainx", "text/htmlx", "text/json",
	"application/jsonx", "application/json-seq", "application/json-patch", "application/xml-dtd", "application/x-gob", "application/gobx",
	"application/vnd.goa.thing+yaml", "application/vnd.goa.thing+jsonx", "application/vnd.goa.thing+txt", "application/vnd.goa.thing+html",
	"application/xhtml+xml", "application/problem+json", "image/svg+xml", "multipart/form-data", "application/x-www-form-urlencoded", "text/x.vnd+gob"}

func lookalikeMT(t *verifsim.Tape) string {
	mt := lookalikes[t.Draw("lookalike", len(lookalikes))]
	switch t.Draw("lookalike-par", 6) {
	case 0:
		mt += "; charset=utf-8"
	case 1:
		mt = strings.ToUpper(mt[:1]) + mt[1:]
	}
	return mt
}

func genDesignedCT(t *verifsim.Tape) (string, string) {
	switch t.Draw("ct", 11) {
	case 9, 10:
		return lookalikeMT(t), "lookalike"
	case 0, 1, 2:
		return "", "absent"
	case 3:
		return supportedMT[t.Draw("sup", len(supportedMT))], "exact"
	case 4:
		return "application/vnd.goa.thing+" + []string{"json", "xml", "gob"}[t.Draw("suffix", 3)], "vendor-suffix"
	case 5:
		return supportedMT[t.Draw("sup", 3)] + "; charset=utf-8", "param"
	case 6:
		return []string{"application/vnd.goa.thing", "application/x-custom", "image/png"}[t.Draw("unk", 3)], "unknown"
	case 7:
		return "application/vnd.goa.thing; view=default", "vendor-param"
	default:
		return []string{"application/json; charset", "application/", ";", "a b/c"}[t.Draw("bad", 4)], "unparsable"
	}
}

func genPreset(t *verifsim.Tape) string {
	switch t.Draw("preset", 8) {
	case 0:
		return "application/vnd.goa.error"
	case 1:
		return "application/vnd.thing+xml"
	case 2:
		return "text/plain; charset=utf-8"
	case 3:
		return "application/json"
	case 4:
		return []string{"application/vnd.acme.v2+XML", "Application/Vnd.Thing+JSON", "application/vnd.acme+Gob"}[t.Draw("preset-case", 3)]
	default:
		return ""
	}
}

// respellMediaType changes the case of the type/subtype of a Content-Type value the way an intermediary or
// another implementation may (media types are case-insensitive, RFC 7231 3.1.1.1); parameters are left alone.
func respellMediaType(t *verifsim.Tape, ct string) string {
	mt, rest := ct, ""
	if i := strings.Index(ct, ";"); i >= 0 {
		mt, rest = ct[:i], ct[i:]
	}
	switch t.Draw("respell", 3) {
	case 0:
		return strings.ToUpper(mt) + rest
	case 1:
		if i := strings.Index(mt, "/"); i >= 0 && len(mt) > i+1 {
			return strings.ToUpper(mt[:1]) + mt[1:i+1] + strings.ToUpper(mt[i+1:i+2]) + mt[i+2:] + rest
		}
	}
	if i := strings.LastIndex(mt, "+"); i >= 0 {
		return mt[:i+1] + strings.ToUpper(mt[i+1:]) + rest
	}
	return strings.ToUpper(mt[:1]) + mt[1:] + rest
}

func genValue(t *verifsim.Tape) (string, any) {
	switch t.Draw("valkind", 6) {
	case 5:
		// the library's own error body: it has hand-written XML marshalling
		fl := t.Draw("errflags", 8)
		return "error-response", &goahttp.ErrorResponse{Name: "e" + textVal(t), ID: textVal(t), Message: textVal(t), Temporary: fl&1 != 0, Timeout: fl&2 != 0, Fault: fl&4 != 0}
	case 0, 1:
		s := &c15Struct{A: textVal(t), N: t.Draw("n", 2000) - 1000}
		for i := t.Draw("l", 3); i > 0; i-- {
			s.L = append(s.L, textVal(t))
		}
		return "struct", s
	case 2:
		return "string", textVal(t)
	case 3:
		s := textVal(t)
		return "*string", &s
	default:
		return "bytes", []byte(textVal(t))
	}
}

// decodeTarget returns a pointer to decode into and a function giving the
// decoded value in the same shape as the original.
func decodeTarget(kind string) (any, func() any) {
	switch kind {
	case "struct":
		v := &c15Struct{}
		return v, func() any { return v }
	case "error-response":
		v := &goahttp.ErrorResponse{}
		return v, func() any { return v }
	case "string":
		var s string
		return &s, func() any { return s }
	case "*string":
		var s string
		return &s, func() any { return &s }
	default:
		var b []byte
		return &b, func() any { return b }
	}
}

func sameValue(a, b any) bool {
	if sa, ok := a.(*c15Struct); ok {
		sb, ok := b.(*c15Struct)
		if !ok {
			return false
		}
		x, y := *sa, *sb
		x.XMLName, y.XMLName = xml.Name{}, xml.Name{}
		if len(x.L) == 0 {
			x.L = nil
		}
		if len(y.L) == 0 {
			y.L = nil
		}
		return reflect.DeepEqual(x, y)
	}
	if ba, ok := a.([]byte); ok {
		bb, ok := b.([]byte)
		return ok && bytes.Equal(ba, bb)
	}
	return reflect.DeepEqual(a, b)
}

func mediaClass(ct string) string {
	mt, _, err := mime.ParseMediaType(ct)
	if err != nil {
		mt = ct
	}
	switch {
	case mt == "application/json" || strings.HasSuffix(mt, "+json"):
		return "json"
	case mt == "application/xml" || strings.HasSuffix(mt, "+xml"):
		return "xml"
	case mt == "application/gob" || strings.HasSuffix(mt, "+gob"):
		return "gob"
	case mt == "text/html" || mt == "text/plain":
		return "text"
	}
	return "other:" + mt
}

func init() { engine.Register("C15", runC15) }

func runC15(t *verifsim.Tape, cfg engine.Config) *engine.Outcome {
	o := &engine.Outcome{Features: map[string]int{}}
	verifsim.SetIdleTape(t)
	defer verifsim.SetIdleTape(nil)
	h := sha256.New()
	nCases := 12
	if cfg.Tier == "thorough" {
		nCases = 40
	}
	faulty := t.Draw("faulty-run", 3) == 2 // fault-free and fault-injecting runs are separate
	var samples []c15case
	distinct := map[string]bool{}
	// history oracle: a decoded value stays what it was while later exchanges happen
	type kept struct {
		got  func() any
		want any
		sig  string
		ci   int
	}
	var retained []kept
	for ci := 0; ci < nCases; ci++ {
		c := c15case{Dir: "response"}
		if t.Draw("dir", 10) < 3 {
			c.Dir = "request"
		}
		kind, val := genValue(t)
		c.ValKind = kind
		net := &simnet.Net{Tape: t, Cfg: simnet.Config{Chunking: true, ForceChunked: 300, HeaderNoise: 300, DoubleClose: 200}}
		if faulty {
			net.Cfg.CutResponse = 400
			net.Cfg.CutRequest = 200
		}
		ex := &simnet.Exchange{}
		ctx := simnet.WithExchange(context.Background(), ex)
		if c.Dir == "response" {
			c.Accept, c.HasAccept, c.AccClass = genAccept(t)
			c.CT, c.CTClass = genDesignedCT(t)
			if t.Draw("use-preset", 4) == 0 {
				c.Preset = genPreset(t)
			}
			var encErr error
			var encPanic any
			net.Handler = http.HandlerFunc(func(w http.ResponseWriter, r *http.Request) {
				sctx := context.WithValue(r.Context(), goahttp.AcceptTypeKey, r.Header.Get("Accept"))
				if c.CT != "" {
					sctx = context.WithValue(sctx, goahttp.ContentTypeKey, c.CT)
				}
				if c.Preset != "" {
					w.Header().Set("Content-Type", c.Preset)
				}
				defer func() {
					if p := recover(); p != nil {
						encPanic = p
						panic(p)
					}
				}()
				enc := goahttp.ResponseEncoder(sctx, w)
				encErr = enc.Encode(val)
			})
			req, _ := http.NewRequestWithContext(ctx, "GET", "http://sim/x", nil)
			if c.HasAccept {
				req.Header["Accept"] = []string{c.Accept}
			}
			resp, err := net.Do(req)
			c.Fault = strings.Join(ex.Faults, ",")
			key := fmt.Sprintf("resp/%s/%s/%s/%s", c.AccClass, c.CTClass, c.Preset, kind)
			distinct[key] = true
			o.Features["resp_accept_"+c.AccClass]++
			o.Features["resp_ct_"+c.CTClass]++
			sig := fmt.Sprintf("accept=%s,ct=%s,preset=%s,value=%s", c.AccClass, c.CTClass, c.Preset, kind)
			fmt.Fprintf(h, "%d:%s:%v:%v;", ci, key, encErr != nil, err != nil)
			if encPanic != nil {
				o.Violate("encoder_panic", "ct="+c.CTClass, "ResponseEncoder/Encode panicked: %v (Accept %q, designed Content-Type %q, pre-set %q)", encPanic, c.Accept, c.CT, c.Preset)
				samples = append(samples, c)
				continue
			}
			if ex.ReqFault != "" && !ex.Parsed {
				o.Features["fault_request_unparsed"]++
				continue
			}
			if encErr != nil {
				o.Features["encode_refused"]++ // e.g. a struct as text/plain: no promise made
				continue
			}
			o.Features["resp_encoded"]++
			sentCT := ex.RespHeader.Get("Content-Type")
			if c.Preset != "" && sentCT == c.Preset {
				// the handler's own header went out untouched: it is not a header
				// the encoder set, so the property does not speak about it
				o.Features["preset_kept_untouched"]++
				continue
			}
			if c.Preset != "" {
				sig = fmt.Sprintf("preset=%s,encoder=%s", c.Preset, mediaClass(sentCT))
			} else if c.CT != "" {
				sig = fmt.Sprintf("ct=%s,value=%s", c.CTClass, kind)
			}
			cut := ex.RespFault == "cut_response" || ex.ReqFault != ""
			if err != nil {
				if !cut {
					o.Violate("transport_error", sig, "fault-free exchange failed: %v", err)
				} else {
					o.Features["fault_cut_error"]++
				}
				continue
			}
			if ct := resp.Header.Get("Content-Type"); ct != "" && t.Draw("respell-ct", 5) == 0 {
				resp.Header.Set("Content-Type", respellMediaType(t, ct))
				o.Features["resp_media_type_respelled"]++
			}
			target, get := decodeTarget(kind)
			derr := goahttp.ResponseDecoder(resp).Decode(target)
			if cut {
				o.Features["fault_cut_response"]++
				if derr == nil && !sameValue(get(), val) {
					// a cut may only produce an error or the value (when it fell after the last significant byte)
					if !prefixTolerant(kind, mediaClass(sentCT), get(), val) {
						o.Violate("cut_wrong_value", sig, "response cut at %d decoded to a different value %v (sent %v, Content-Type %q)", ex.RespFaultAt, show(get()), show(val), sentCT)
					}
				}
				continue
			}
			if derr == nil {
				retained = append(retained, kept{get, val, sig, ci})
			}
			if derr != nil {
				o.Violate("roundtrip_decode_error", sig, "body written under Content-Type %q does not decode: %v; body=%q (Accept %q present=%v, designed %q, pre-set %q)", sentCT, derr, clip(ex.RespBody), c.Accept, c.HasAccept, c.CT, c.Preset)
			} else if !sameValue(get(), val) {
				o.Violate("roundtrip_value", sig, "decoded %v, sent %v under Content-Type %q; body=%q", show(get()), show(val), sentCT, clip(ex.RespBody))
			}
			// fallback rule
			if c.CT == "" && c.Preset == "" && (c.AccClass == "absent" || c.AccClass == "empty" || c.AccClass == "unsupported" || c.AccClass == "garbage") {
				o.Features["fallback_checked"]++
				var js any
				if mediaClass(sentCT) != "json" || json.Unmarshal(ex.RespBody, &js) != nil {
					o.Violate("fallback_not_json", sig, "Accept %q (present=%v) must fall back to JSON; got Content-Type %q body %q", c.Accept, c.HasAccept, sentCT, clip(ex.RespBody))
				}
			}
		} else {
			// request direction: the client announces a media type and encodes in it
			var body bytes.Buffer
			rc := t.Draw("reqct", 12)
			switch {
			case rc < 3:
				c.ReqCT, c.ReqClass = "", "absent"
			case rc < 8:
				c.ReqCT, c.ReqClass = supportedMT[t.Draw("sup", len(supportedMT))], "exact"
				if t.Draw("reqparam", 3) == 0 {
					c.ReqCT += "; charset=utf-8"
					c.ReqClass = "param"
				}
			case rc < 10:
				c.ReqCT, c.ReqClass = []string{"image/png", "application/x-www-form-urlencoded", "application/octet-stream", "application/vnd.api+json"}[t.Draw("unsup", 4)], "unsupported"
				if t.Draw("unsup-lookalike", 2) == 0 {
					c.ReqCT = lookalikeMT(t)
				}
			default:
				c.ReqCT, c.ReqClass = []string{"application/json; charset", ";", "json"}[t.Draw("bad", 3)], "garbage"
			}
			class := "json"
			if c.ReqClass == "exact" || c.ReqClass == "param" {
				class = mediaClass(c.ReqCT)
			}
			var eerr error
			useGoaEncoder := class == "json" && c.ReqClass != "unsupported" && c.ReqClass != "garbage" && t.Draw("goa-reqenc", 2) == 0
			req, _ := http.NewRequestWithContext(ctx, "POST", "http://sim/x", nil)
			if c.ReqCT != "" {
				req.Header.Set("Content-Type", c.ReqCT)
			}
			switch {
			case useGoaEncoder:
				eerr = goahttp.RequestEncoder(req).Encode(val)
				o.Features["req_goa_encoder"]++
			case class == "json":
				eerr = json.NewEncoder(&body).Encode(val)
			case class == "xml":
				eerr = xml.NewEncoder(&body).Encode(val)
			case class == "gob":
				eerr = gob.NewEncoder(&body).Encode(val)
			default:
				switch v := val.(type) {
				case string:
					body.WriteString(v)
				case *string:
					body.WriteString(*v)
				case []byte:
					body.Write(v)
				default:
					eerr = errors.New("not text")
				}
			}
			if eerr != nil {
				o.Features["req_encode_refused"]++
				continue
			}
			if !useGoaEncoder {
				req.Body = io.NopCloser(bytes.NewReader(body.Bytes()))
				req.ContentLength = int64(body.Len())
			}
			target, get := decodeTarget(kind)
			var derr error
			errEnc := goahttp.ErrorEncoder(goahttp.ResponseEncoder, nil)
			net.Handler = http.HandlerFunc(func(w http.ResponseWriter, r *http.Request) {
				derr = goahttp.RequestDecoder(r).Decode(target)
				sctx := context.WithValue(r.Context(), goahttp.AcceptTypeKey, r.Header.Get("Accept"))
				if derr != nil {
					var se *goa.ServiceError
					if !errors.As(derr, &se) {
						derr2 := goa.DecodePayloadError(derr.Error())
						errEnc(sctx, w, derr2) // nolint
						return
					}
					errEnc(sctx, w, derr) // nolint
					return
				}
				w.WriteHeader(204)
			})
			// a second request encoded BEFORE the first one is sent (two callers of one client), sent right after it
			var follower *http.Request
			var fval *c15Struct
			if useGoaEncoder && t.Draw("pipelined-follower", 3) == 0 {
				fval = &c15Struct{A: "follower " + textVal(t), N: t.Draw("n", 2000)}
				follower, _ = http.NewRequestWithContext(simnet.WithExchange(context.Background(), &simnet.Exchange{}), "POST", "http://sim/x", nil)
				if ferr := goahttp.RequestEncoder(follower).Encode(fval); ferr != nil {
					follower = nil
				}
			}
			resp, err := net.Do(req)
			if follower != nil {
				o.Features["req_pipelined_follower"]++
				var got c15Struct
				var ferr error
				fnet := &simnet.Net{Tape: t, Cfg: simnet.Config{Chunking: true}, Handler: http.HandlerFunc(func(w http.ResponseWriter, r *http.Request) {
					ferr = goahttp.RequestDecoder(r).Decode(&got)
					w.WriteHeader(204)
				})}
				if _, derr2 := fnet.Do(follower); derr2 != nil {
					o.Violate("transport_error", "request_pipelined", "fault-free follower exchange failed: %v", derr2)
				} else if ferr != nil || !sameValue(&got, fval) {
					o.Violate("request_value", "request_pipelined", "a request encoded before another one was sent, and sent after it, was decoded by the server as %v (error %v); its caller encoded %v", show(&got), ferr, show(fval))
				}
			}
			c.Fault = strings.Join(ex.Faults, ",")
			key := fmt.Sprintf("req/%s/%s/%s", c.ReqClass, class, kind)
			distinct[key] = true
			o.Features["req_ct_"+c.ReqClass]++
			sig := fmt.Sprintf("request_ct=%s/%s,value=%s", c.ReqClass, class, kind)
			fmt.Fprintf(h, "%d:%s:%v:%v;", ci, key, derr != nil, err != nil)
			if ex.ReqFault != "" || ex.RespFault != "" {
				o.Features["fault_request_dir"]++
				if derr == nil && ex.Served > 0 && ex.ReqFault == "cut_request" && !sameValue(get(), val) && !prefixTolerant(kind, class, get(), val) {
					o.Violate("cut_wrong_value", sig, "request cut at %d decoded to %v (sent %v)", ex.ReqFaultAt, show(get()), show(val))
				}
				continue
			}
			if err != nil {
				o.Violate("transport_error", sig, "fault-free exchange failed: %v", err)
				continue
			}
			switch c.ReqClass {
			case "unsupported", "garbage":
				o.Features["unsupported_checked"]++
				if resp.StatusCode != 415 {
					o.Violate("unsupported_not_415", sig, "request Content-Type %q answered with %d (decode error: %v)", c.ReqCT, resp.StatusCode, derr)
				}
			default:
				if derr == nil {
					retained = append(retained, kept{get, val, sig, ci})
				}
				if derr != nil {
					o.Violate("request_decode_error", sig, "request body in %s under Content-Type %q does not decode: %v; body=%q", class, c.ReqCT, derr, clip(body.Bytes()))
				} else if !sameValue(get(), val) {
					o.Violate("request_value", sig, "server decoded %v, client sent %v under Content-Type %q", show(get()), show(val), c.ReqCT)
				}
			}
		}
		if len(samples) < 3 {
			samples = append(samples, c)
		}
	}
	for _, k := range retained {
		o.Features["retained_rechecked"]++
		if !sameValue(k.got(), k.want) {
			o.Violate("decoded_value_changed_later", "retained:"+k.sig, "the value decoded in exchange %d was correct when decoded and is %v after later exchanges (sent %v)", k.ci, show(k.got()), show(k.want))
			break
		}
	}
	o.Nontrivial = true
	ks := make([]string, 0, len(distinct))
	for k := range distinct {
		ks = append(ks, k)
	}
	o.Extra = map[string]string{"distinct_keys": strings.Join(sortStrings(ks), "\n")}
	o.Distinct = hex.EncodeToString(h.Sum(nil))[:16]
	o.Digest = o.Distinct
	o.Features["_evaluations"] = nCases
	o.Sample = samples
	return o
}

// prefixTolerant: after a cut, a text body legitimately decodes to a prefix
// (text has no framing of its own; the truncation is reported by the transport
// as an unexpected EOF which ReadAll surfaces as an error, so this only covers
// the case where the cut fell exactly at the end).
func prefixTolerant(kind, class string, got, sent any) bool { return false }

func show(v any) string {
	switch x := v.(type) {
	case *c15Struct:
		return fmt.Sprintf("{A:%q N:%d L:%q}", x.A, x.N, x.L)
	case *string:
		return fmt.Sprintf("&%q", *x)
	case []byte:
		return fmt.Sprintf("bytes(%q)", x)
	}
	return fmt.Sprintf("%q", v)
}

func clip(b []byte) string {
	if len(b) > 200 {
		return string(b[:200]) + "..."
	}
	return string(b)
}

func sortStrings(s []string) []string {
	for i := 1; i < len(s); i++ {
		for j := i; j > 0 && s[j] < s[j-1]; j-- {
			s[j], s[j-1] = s[j-1], s[j]
		}
	}
	return s
}
