// Command rt is the worker of the RT engine: runtime packages of goa under the
// gated scheduler, SimNet, SimClock and SimRand (DESIGN.md section 5).
package main

import "verif/sim/engine"

func main() { engine.Main() }
