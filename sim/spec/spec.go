// Package spec is the design description shared by the design generator, the
// DSL interpreter (which feeds it to goa) and the reference model (which
// derives the expected behaviour from it WITHOUT looking at goa's expression
// model or templates). It imports nothing from goa.
package spec

import (
	"encoding/json"
	"os"
)

// Kinds of types.
const (
	Boolean = "boolean"
	Int     = "int"
	Int32   = "int32"
	Int64   = "int64"
	UInt    = "uint"
	UInt32  = "uint32"
	UInt64  = "uint64"
	Float32 = "float32"
	Float64 = "float64"
	String  = "string"
	Bytes   = "bytes"
	Any     = "any"
	Array   = "array"
	Map     = "map"
	Object  = "object"
	User    = "user" // reference to a named type
)

// Validation keywords of one attribute.
type Validation struct {
	Enum      []any    `json:"enum,omitempty"`
	Format    string   `json:"format,omitempty"`
	Pattern   string   `json:"pattern,omitempty"`
	Min       *float64 `json:"min,omitempty"`
	Max       *float64 `json:"max,omitempty"`
	ExclMin   *float64 `json:"excl_min,omitempty"`
	ExclMax   *float64 `json:"excl_max,omitempty"`
	MinLength *int     `json:"min_length,omitempty"`
	MaxLength *int     `json:"max_length,omitempty"`
}

// Type is a type expression.
type Type struct {
	Kind   string  `json:"kind"`
	Elem   *Attr   `json:"elem,omitempty"`   // array element, map value
	Key    *Attr   `json:"key,omitempty"`    // map key
	Fields []*Attr `json:"fields,omitempty"` // object
	Name   string  `json:"name,omitempty"`   // user type name
	// Extend names the user type an object extends (DSL Extend): Fields already holds the merged
	// attribute list, the inherited ones flagged; RequiredRepeat are base-required names the extending
	// object lists again in its own Required()
	Extend         string   `json:"extend,omitempty"`
	RequiredRepeat []string `json:"required_repeat,omitempty"`
	// Reference names the user type an object refers to (DSL Reference): attributes flagged FromRef are declared
	// by name only and take type, default and validations from the attribute of that name in the referenced type
	Reference string `json:"reference,omitempty"`
}

// Attr is an attribute: a (possibly named) typed slot with constraints.
type Attr struct {
	Name     string      `json:"name,omitempty"`
	Type     *Type       `json:"type"`
	Required bool        `json:"required,omitempty"`
	Default  any         `json:"default,omitempty"`
	HasDef   bool        `json:"has_default,omitempty"`
	Val      *Validation `json:"validation,omitempty"`
	// DefFromAlias: Default/HasDef repeat the default declared ON the attribute's alias type (Type("Tier", String,
	// func() { Default("basic") })); the attribute itself declares none
	DefFromAlias bool `json:"default_from_alias,omitempty"`
	View     string      `json:"view,omitempty"` // result-type attribute rendered with this view
	Sec      string      `json:"sec,omitempty"`  // username | password | apikey:<scheme> | token | accesstoken
	Inherited bool       `json:"inherited,omitempty"` // comes from the extended type (not re-declared in the DSL)
	// FromRef: declared by name only under a Reference; Val is the EFFECTIVE validation (the referenced attribute's,
	// with the keywords of Override replaced), Override what the referencing attribute sets itself
	FromRef  bool        `json:"from_ref,omitempty"`
	Override *Validation `json:"override,omitempty"`
	ErrName  bool        `json:"err_name,omitempty"` // ErrorName(): the attribute of a custom error type that holds the error name
}

// View of a result type.
type View struct {
	Name   string   `json:"name"`
	Fields []string `json:"fields"`
	// Overrides gives, per attribute of nested result type, the view it is rendered
	// with inside THIS view (it wins over the view set on the attribute itself).
	Overrides map[string]string `json:"overrides,omitempty"`
}

// NestedView returns the view a nested result-type attribute is rendered with
// when its parent is rendered with view v.
func (v *View) NestedView(f *Attr) string {
	if v != nil {
		if o, ok := v.Overrides[f.Name]; ok {
			return o
		}
	}
	return f.View
}

// UserType is a named type (Type) or result type (ResultType with views).
type UserType struct {
	Name       string  `json:"name"`
	Attr       *Attr   `json:"attr"` // Type.Kind object (or alias of a primitive)
	IsResult   bool    `json:"is_result,omitempty"`
	IsError    bool    `json:"is_error,omitempty"` // only used as the type of declared errors
	NoReuse    bool    `json:"no_reuse,omitempty"` // never picked as the type of another attribute
	Identifier string  `json:"identifier,omitempty"`
	Views      []*View `json:"views,omitempty"`
}

// ErrorDef declares an error.
type ErrorDef struct {
	Name      string `json:"name"`
	Type      *Type  `json:"type,omitempty"` // nil: ErrorResult
	Status    int    `json:"status"`
	Temporary bool   `json:"temporary,omitempty"`
	Timeout   bool   `json:"timeout,omitempty"`
	Fault     bool   `json:"fault,omitempty"`
	// for custom object error types: attribute holding the error name, headers
	NameField string            `json:"name_field,omitempty"`
	Headers   map[string]string `json:"headers,omitempty"` // attr -> header
	// EmptyBody: the response is declared with Body(Empty); a default-type error then travels in the goa-error and
	// goa-attribute-* headers only
	EmptyBody bool `json:"empty_body,omitempty"`
	// Inherit "api": a method-level declaration whose HTTP response is the one mapped at API level
	Inherit string `json:"inherit,omitempty"`
}

// Response of a method.
type Response struct {
	Status  int               `json:"status"`
	Headers map[string]string `json:"headers,omitempty"` // attr -> header name
	Cookies map[string]string `json:"cookies,omitempty"`
	TagAttr string            `json:"tag_attr,omitempty"`
	TagVal  string            `json:"tag_val,omitempty"`
	Body    string            `json:"body,omitempty"` // attribute name used as the whole body
	Empty   bool              `json:"empty,omitempty"`
	CT      string            `json:"content_type,omitempty"`
	// CodeInside: declared as Response(func() { Code(status); ... }) instead of Response(status, func() { ... })
	CodeInside bool `json:"code_inside,omitempty"`
}

// Route is verb + path pattern.
type Route struct {
	Verb string `json:"verb"`
	Path string `json:"path"`
}

// Requirement is one security requirement: all schemes must pass.
type Requirement struct {
	Schemes []string `json:"schemes"`
	Scopes  []string `json:"scopes,omitempty"`
}

// Scheme is a security scheme.
type Scheme struct {
	Name   string   `json:"name"`
	Kind   string   `json:"kind"` // basic | apikey | jwt | oauth2
	Scopes []string `json:"scopes,omitempty"`
	// where the credential travels for this design
	In     string `json:"in,omitempty"`   // header | query (apikey, jwt, oauth2)
	Param  string `json:"param,omitempty"` // wire name; "" = implicit Authorization header
	Attr   string `json:"attr,omitempty"`  // payload attribute carrying the credential (key/token)
	UAttr  string `json:"user_attr,omitempty"`
	PAttr  string `json:"pass_attr,omitempty"`
}

// Method of a service.
type Method struct {
	Name      string            `json:"name"`
	Payload   *Attr             `json:"payload,omitempty"`
	Result    *Attr             `json:"result,omitempty"`
	Errors    []*ErrorDef       `json:"errors,omitempty"`
	Routes    []*Route          `json:"routes"`
	Params    map[string]string `json:"params,omitempty"`  // attr -> query key
	Headers   map[string]string `json:"headers,omitempty"` // attr -> header name
	// ImplicitHeaders: credential attributes whose Authorization mapping (present in Headers, which is what the
	// reference model reads) is NOT written in the design: goa maps token/key attributes of schemes without an
	// explicit location to the Authorization header by itself
	ImplicitHeaders map[string]bool `json:"implicit_headers,omitempty"`
	Cookies   map[string]string `json:"cookies,omitempty"` // attr -> cookie name
	Body      string            `json:"body,omitempty"`    // attribute used as whole body
	Responses []*Response       `json:"responses,omitempty"`
	Security  []*Requirement    `json:"security,omitempty"`
	NoSec     bool              `json:"no_security,omitempty"`
	FixedView string            `json:"fixed_view,omitempty"`
	// Collection: the result is CollectionOf(<the result type named by Result>): on the model side Result is then
	// an array of that type (see ResultAttr / genlib.loadDesign), rendered element by element with the chosen view
	Collection bool `json:"collection,omitempty"`
}

// Service groups methods.
type Service struct {
	Name     string         `json:"name"`
	Path     string         `json:"path,omitempty"`
	Methods  []*Method      `json:"methods"`
	Errors   []*ErrorDef    `json:"errors,omitempty"`
	Security []*Requirement `json:"security,omitempty"`
}

// Design is one "program" translated by goa.
type Design struct {
	Name     string         `json:"name"`
	Types    []*UserType    `json:"types,omitempty"`
	Services []*Service     `json:"services"`
	Errors   []*ErrorDef    `json:"errors,omitempty"`
	Schemes  []*Scheme      `json:"schemes,omitempty"`
	Security []*Requirement `json:"security,omitempty"`
	Features []string       `json:"features,omitempty"` // feature vector, for evidence
}

// Load reads a design from a JSON file.
func Load(path string) (*Design, error) {
	b, err := os.ReadFile(path)
	if err != nil {
		return nil, err
	}
	d := &Design{}
	return d, json.Unmarshal(b, d)
}

// UserType looks up a named type.
func (d *Design) UserType(name string) *UserType {
	for _, u := range d.Types {
		if u.Name == name {
			return u
		}
	}
	return nil
}

// Resolve follows user-type references down to a structural type; it also
// returns the validations accumulated on the way (an alias carries its own).
func (d *Design) Resolve(t *Type) *Type {
	for i := 0; t != nil && t.Kind == User && i < 20; i++ {
		u := d.UserType(t.Name)
		if u == nil {
			return t
		}
		t = u.Attr.Type
	}
	return t
}

// Field returns the named field of an object type.
func (t *Type) Field(name string) *Attr {
	for _, f := range t.Fields {
		if f.Name == name {
			return f
		}
	}
	return nil
}

// IsPrimitive reports scalar kinds.
func IsPrimitive(k string) bool {
	switch k {
	case Boolean, Int, Int32, Int64, UInt, UInt32, UInt64, Float32, Float64, String, Bytes, Any:
		return true
	}
	return false
}

// IsInt reports integer kinds.
func IsInt(k string) bool {
	switch k {
	case Int, Int32, Int64, UInt, UInt32, UInt64:
		return true
	}
	return false
}

// IsNum reports numeric kinds.
func IsNum(k string) bool { return IsInt(k) || k == Float32 || k == Float64 }
