package genlib

import (
	"bytes"
	"encoding/json"
	"fmt"
	"sort"
	"strings"

	goahttp "goa.design/goa/v3/http"
	"goa.design/goa/v3/verifsim"
	"verif/sim/engine"
	"verif/sim/gen"
	"verif/sim/simnet"
	"verif/sim/spec"
)

// rewrite_body fault: the JSON body the generated client wrote is edited on the wire, the way a proxy, a
// hand-written client or another implementation might send it. The generated client cannot express these
// requests (its body struct has no way to omit a required primitive, let alone send a string where a number
// belongs), so the network is the only party that can. Kinds, all with unambiguous meaning:
//
//	drop      an object member, at any depth, is removed            -> the attribute is absent
//	null      an object member's value becomes null                  -> the attribute is absent
//	retype    a value becomes a value of another JSON type           -> the value type is violated
//	overflow  an integer becomes a number its designed kind cannot hold (or a fraction) -> value type violated
//	extra     a designed object gains a member the design does not declare -> nothing changes: goa ignores
//	          unknown members, and the OpenAPI document does not forbid them (no additionalProperties: false)
//
// The reference model applies the same edit to the payload value and says what must happen.

type rwStep struct {
	field string // object member / map key
	index int    // array index when field == "" and isIndex
	isIdx bool
	inMap bool
}

type rwSite struct {
	path   []rwStep
	attr   *spec.Attr // the attribute (member) or element attribute at the site
	member bool       // object member of a designed object (can be dropped)
}

type bodyRewrite struct {
	kind          string
	where         string
	attr          *spec.Attr
	after         any // model payload after drop/null
	typeViolation bool
	depth         int
	throughMap    bool // the site lies inside a map value
}

func pathString(p []rwStep) string {
	var b strings.Builder
	for _, s := range p {
		switch {
		case s.isIdx:
			fmt.Fprintf(&b, "[%d]", s.index)
		case s.inMap:
			fmt.Fprintf(&b, "[%q]", s.field)
		default:
			b.WriteString("." + s.field)
		}
	}
	return b.String()
}

// collectSites walks the JSON value alongside the designed type.
func collectSites(d *spec.Design, a *spec.Attr, jv any, fields []*spec.Attr, path []rwStep, depth int, out *[]rwSite) {
	if a == nil || jv == nil || depth > 6 {
		return
	}
	rt := d.Resolve(a.Type)
	if rt == nil {
		return
	}
	ext := func(s rwStep) []rwStep { return append(append([]rwStep{}, path...), s) }
	switch rt.Kind {
	case spec.Object:
		jm, ok := jv.(map[string]any)
		if !ok {
			return
		}
		fs := rt.Fields
		if fields != nil {
			fs = fields
		}
		for _, f := range fs {
			v, present := jm[f.Name]
			if !present || f.Sec != "" {
				continue
			}
			p := ext(rwStep{field: f.Name})
			*out = append(*out, rwSite{path: p, attr: f, member: true})
			collectSites(d, f, v, nil, p, depth+1, out)
		}
	case spec.Array:
		arr, ok := jv.([]any)
		if !ok {
			return
		}
		for i, e := range arr {
			p := ext(rwStep{index: i, isIdx: true})
			*out = append(*out, rwSite{path: p, attr: rt.Elem})
			collectSites(d, rt.Elem, e, nil, p, depth+1, out)
		}
	case spec.Map:
		jm, ok := jv.(map[string]any)
		if !ok {
			return
		}
		keys := make([]string, 0, len(jm))
		for k := range jm {
			keys = append(keys, k)
		}
		sort.Strings(keys)
		for _, k := range keys {
			p := ext(rwStep{field: k, inMap: true})
			*out = append(*out, rwSite{path: p, attr: rt.Elem})
			collectSites(d, rt.Elem, jm[k], nil, p, depth+1, out)
		}
	}
}

// editJSON applies f to the parent container of the last step.
func editJSON(root any, path []rwStep, f func(get func() any, set func(any), del func())) any {
	if len(path) == 0 {
		var out any = root
		f(func() any { return root }, func(v any) { out = v }, func() {})
		return out
	}
	cur := root
	for _, s := range path[:len(path)-1] {
		if s.isIdx {
			cur = cur.([]any)[s.index]
		} else {
			cur = cur.(map[string]any)[s.field]
		}
	}
	last := path[len(path)-1]
	if last.isIdx {
		arr := cur.([]any)
		f(func() any { return arr[last.index] }, func(v any) { arr[last.index] = v }, func() {})
	} else {
		m := cur.(map[string]any)
		f(func() any { return m[last.field] }, func(v any) { m[last.field] = v }, func() { delete(m, last.field) })
	}
	return root
}

// dropInModel removes the attribute at path from a deep copy of the model payload.
func dropInModel(model any, path []rwStep) (any, bool) {
	cp := gen.DeepCopy(model)
	cur := cp
	for i, s := range path {
		lastStep := i == len(path)-1
		switch {
		case s.isIdx:
			arr, ok := cur.([]any)
			if !ok || s.index >= len(arr) || lastStep {
				return nil, false
			}
			cur = arr[s.index]
		case s.inMap:
			mv, ok := cur.(*gen.MapVal)
			if !ok || lastStep {
				return nil, false
			}
			found := false
			for k := range mv.K {
				if fmt.Sprint(mv.K[k]) == s.field {
					cur, found = mv.V[k], true
					break
				}
			}
			if !found {
				return nil, false
			}
		default:
			obj, ok := cur.(map[string]any)
			if !ok {
				return nil, false
			}
			if lastStep {
				delete(obj, s.field)
				return cp, true
			}
			cur = obj[s.field]
		}
	}
	return nil, false
}

func otherJSONType(v any) any {
	switch v.(type) {
	case string:
		return json.Number("7")
	case json.Number:
		return "seven"
	case bool:
		return "yes"
	case map[string]any:
		return []any{}
	case []any:
		return map[string]any{}
	}
	return nil
}

func overflowFor(kind string, t *verifsim.Tape) any {
	if t.Draw("overflow-how", 3) == 0 {
		return json.Number("1.5")
	}
	switch kind {
	case spec.Int32:
		return json.Number("2147483648")
	case spec.UInt32:
		return []json.Number{"4294967296", "-1"}[t.Draw("uof", 2)]
	case spec.UInt, spec.UInt64:
		return []json.Number{"18446744073709551616", "-1"}[t.Draw("uof", 2)]
	}
	return json.Number("9223372036854775808")
}

// planRewrite edits body; it returns nil when the body offers no site.
func planRewrite(t *verifsim.Tape, d *spec.Design, m *spec.Method, payload any, body []byte, kinds []string) ([]byte, *bodyRewrite) {
	if m.Payload == nil || m.Body != "" {
		return nil, nil
	}
	dec := json.NewDecoder(bytes.NewReader(body))
	dec.UseNumber()
	var root any
	if dec.Decode(&root) != nil {
		return nil, nil
	}
	var sites []rwSite
	pt := d.Resolve(m.Payload.Type)
	if pt.Kind == spec.Object {
		collectSites(d, m.Payload, root, bodyAttrs(d, m, m.Payload, m.Headers, m.Cookies, m.Params, m.Routes[0].Path), nil, 0, &sites)
	} else {
		collectSites(d, m.Payload, root, nil, nil, 0, &sites)
	}
	if len(sites) == 0 {
		return nil, nil
	}
	// deeper sites are the rarer ones: two draws, keep the deeper
	s := sites[t.Draw("rewrite-site", len(sites))]
	if s2 := sites[t.Draw("rewrite-site", len(sites))]; len(s2.path) > len(s.path) {
		s = s2
	}
	kind := kinds[t.Draw("rewrite-kind", len(kinds))]
	rk := d.Resolve(s.attr.Type).Kind
	rw := &bodyRewrite{kind: kind, where: pathString(s.path), attr: s.attr, depth: len(s.path)}
	for _, st := range s.path {
		rw.throughMap = rw.throughMap || st.inMap
	}
	switch kind {
	case "extra":
		if !s.member || rw.throughMap || len(s.path) == 0 || s.path[len(s.path)-1].isIdx {
			return nil, nil
		}
		ok := false
		parent := s.path[:len(s.path)-1]
		root = editJSON(root, parent, func(get func() any, set func(any), del func()) {
			if obj, isObj := get().(map[string]any); isObj {
				obj[[]string{"zzUndeclared", "x-note", "ZZ undeclared "}[t.Draw("extra-name", 3)]] = []any{json.Number("1"), "as discussed", true, nil, map[string]any{"a": "b"}}[t.Draw("extra-value", 5)]
				ok = true
			}
		})
		if !ok {
			return nil, nil
		}
		rw.after = payload
	case "drop", "null":
		if !s.member {
			return nil, nil
		}
		after, ok := dropInModel(payload, s.path)
		if !ok {
			return nil, nil
		}
		rw.after = after
		root = editJSON(root, s.path, func(get func() any, set func(any), del func()) {
			if kind == "drop" {
				del()
			} else {
				set(nil)
			}
		})
	case "retype":
		if rk == spec.Any {
			return nil, nil
		}
		ok := false
		root = editJSON(root, s.path, func(get func() any, set func(any), del func()) {
			if nv := otherJSONType(get()); nv != nil {
				set(nv)
				ok = true
			}
		})
		if !ok {
			return nil, nil
		}
		rw.typeViolation = true
	case "overflow":
		if !spec.IsInt(rk) {
			return nil, nil
		}
		root = editJSON(root, s.path, func(get func() any, set func(any), del func()) { set(overflowFor(rk, t)) })
		rw.typeViolation = true
	}
	nb, err := json.Marshal(root)
	if err != nil {
		return nil, nil
	}
	return nb, rw
}

// judgeRewritten is the oracle of an exchange whose body was rewritten.
func judgeRewritten(o *engine.Outcome, w *world, d *spec.Design, design string, s *spec.Service, m *spec.Method, ex *simnet.Exchange, payload any, rw *bodyRewrite, prop, where string) {
	f := rw.attr
	kind := d.Resolve(f.Type).Kind
	deep := "top"
	if rw.depth > 1 {
		deep = "nested"
	}
	cls := fmt.Sprintf("%s:%s,type=%s,required=%v,default=%v", rw.kind, deep, kind, f.Required, f.HasDef)
	o.Features["fault_rewrite_body_"+rw.kind+"_"+deep]++
	var er goahttp.ErrorResponse
	body4xx := func() bool {
		return ex.Status >= 400 && ex.Status <= 499 && json.Unmarshal(ex.RespBody, &er) == nil
	}
	if rw.kind == "extra" {
		if c := classifyFailureAny(d, m, payload, nil, ex); c != "" {
			o.Features["known_defect_class_in_the_way"]++
			return
		}
		if prop == "C14" {
			if c := loadContract(design); c.err == nil {
				docErr, _, _, _, routed := c.docVerdictRequest(ex)
				full := *ex
				full.ReqWire = ex.ReqWireSent
				if fullErr, _, _, _, ok := c.docVerdictRequest(&full); !ok || fullErr != nil {
					o.Features["c14_drop_unjudged_document_rejects_full_request"]++
					return
				}
				if routed && docErr == nil && len(w.invoked) != 1 {
					o.Violate("contract_promises_invalid_request", "doc-accepts-undeclared-member:"+deep, "%s: the body carries an undeclared member next to %s and conforms to openapi3.json, the server refused it: status %d body %q\n  body %q", where, rw.where, ex.Status, clipS(string(ex.RespBody)), clipS(string(bodyOf(ex.ReqWire))))
				}
				o.Features["c14_requests_judged"]++
			}
			return
		}
		if len(w.invoked) != 1 {
			o.Violate("valid_request_failed", "undeclared-member-refused:"+deep, "%s: a body with an undeclared member next to %s was not served: status %d body %q\n  body %q", where, rw.where, ex.Status, clipS(string(ex.RespBody)), clipS(string(bodyOf(ex.ReqWire))))
			return
		}
		if diff := gen.Diff(expectedPayload(d, m, payload), w.invoked[0].got, ""); diff != "" && diffClassP(d, m, diff, payload) != "query-map-key-contains-closing-bracket" {
			o.Violate("payload_delivery", "delivery-after-rewrite:extra:"+deep, "%s: body with an undeclared member next to %s: %s", where, rw.where, diff)
		}
		return
	}
	if rw.typeViolation {
		if c := classifyFailureAny(d, m, payload, nil, ex); c != "" {
			o.Features["known_defect_class_in_the_way"]++
			return
		}
		if prop == "C14" {
			if c := loadContract(design); c.err == nil {
				if docErr, _, _, _, routed := c.docVerdictRequest(ex); routed {
					o.Features["c14_requests_judged"]++
					if docErr == nil && rw.kind == "retype" && rw.throughMap {
						// the recorded defect: openapi3.json says nothing about what a map holds
						o.Violate("contract_promises_invalid_request", "doc-accepts-invalid:map-element-constraint", "%s: the body carries a value of the wrong JSON type at %s (inside a map) and conforms to openapi3.json", where, rw.where)
					} else if docErr == nil && rw.kind == "retype" {
						o.Violate("contract_promises_invalid_request", "doc-accepts-wrong-json-type:"+cls, "%s: the body carries a value of the wrong JSON type at %s (%s designed) and conforms to openapi3.json\n  body %q", where, rw.where, kind, clipS(string(bodyOf(ex.ReqWire))))
					}
				}
			}
			return
		}
		if len(w.invoked) != 0 {
			o.Violate("invalid_payload_reached_service", "reached:wrong-json-type:"+cls, "%s: the body carries a value of the wrong JSON type at %s (%s designed) and the service method ran on %s\n  body %q", where, rw.where, kind, gen.Show(w.invoked[0].got), clipS(string(bodyOf(ex.ReqWire))))
			return
		}
		if !body4xx() || !contains([]string{"decode_payload", "invalid_field_type"}, er.Name) {
			o.Violate("invalid_error_name", "wrong-json-type-answer:"+cls, "%s: a value of the wrong JSON type at %s answered with status %d body %q\n  request %s\n  was %s\n  body %q", where, rw.where, ex.Status, clipS(string(ex.RespBody)), firstLineOf(ex.ReqWire), firstLineOf(ex.ReqWireSent), clipS(string(bodyOf(ex.ReqWire))))
		}
		return
	}
	// drop / null: the attribute is absent
	if c := classifyFailureAny(d, m, rw.after, nil, ex); c != "" {
		o.Features["known_defect_class_in_the_way"]++
		return
	}
	if gen.MustBeSet(d, f) && !f.Required {
		o.Features["known_defect_class_in_the_way"]++ // optional collection with MinLength, now unset: known finding
		return
	}
	valid := !f.Required && len(gen.Validate(d, rw.after, m.Payload, "")) == 0
	if prop == "C14" {
		if rw.kind != "drop" {
			return // OpenAPI tells null from absent; goa does not: not compared
		}
		if c := loadContract(design); c.err == nil {
			docErr, _, _, _, routed := c.docVerdictRequest(ex)
			full := *ex
			full.ReqWire = ex.ReqWireSent
			if fullErr, _, _, _, ok := c.docVerdictRequest(&full); !ok || fullErr != nil {
				o.Features["c14_drop_unjudged_document_rejects_full_request"]++
				return
			}
			if routed && (docErr == nil) != valid && !(docErr != nil && strings.Contains(docErr.Error(), "security")) {
				dir := "doc-accepts-request-missing-required"
				if docErr != nil {
					dir = "doc-rejects-request-missing-optional"
				}
				if docErr == nil && rw.throughMap {
					o.Violate("contract_promises_invalid_request", "doc-accepts-invalid:map-element-constraint", "%s: body without the required %s (inside a map) conforms to openapi3.json", where, rw.where)
					return
				}
				o.Violate("contract_missing_element", dir+":body-"+deep+fmt.Sprintf(",required=%v,default=%v", f.Required, f.HasDef), "%s: body without %s: the design says valid=%v, openapi3.json says %v\n  body %q", where, rw.where, valid, errClass(docErr), clipS(string(bodyOf(ex.ReqWire))))
			}
			o.Features["c14_requests_judged"]++
		}
		return
	}
	if valid {
		o.Features["rewritten_optional_absent"]++
		if len(w.invoked) != 1 {
			o.Violate("optional_element_missing_refused", "missing-optional-refused:body-"+cls, "%s: the body lacks the OPTIONAL %s (%s) and was not served: status %d body %q", where, rw.where, rw.kind, ex.Status, clipS(string(ex.RespBody)))
			return
		}
		want := expectedPayload(d, m, rw.after)
		if diff := gen.Diff(want, w.invoked[0].got, ""); diff != "" {
			if diffClassP(d, m, diff, rw.after) == "query-map-key-contains-closing-bracket" {
				o.Features["known_defect_class_in_the_way"]++ // recorded under its own signature by the fault-free exchanges
				return
			}
			o.Violate("payload_delivery", "delivery-after-rewrite:"+cls, "%s: body without %s (%s): %s\n  expected %s\n  received %s", where, rw.where, rw.kind, diff, gen.Show(want), gen.Show(w.invoked[0].got))
		}
		return
	}
	if !f.Required {
		o.Features["rewritten_other_violation"]++ // removing it uncovered another violation: the generic oracle has judged what reached user code
		return
	}
	o.Features["rewritten_required_absent"]++
	if len(w.invoked) != 0 {
		o.Violate("invalid_payload_reached_service", "reached:missing-required:body-"+cls, "%s: the body lacks the REQUIRED %s (%s) and the service method ran on %s\n  body %q", where, rw.where, rw.kind, gen.Show(w.invoked[0].got), clipS(string(bodyOf(ex.ReqWire))))
		return
	}
	if !body4xx() || !contains(ruleErrorNames["required"], er.Name) {
		o.Violate("invalid_error_name", "missing-required-answer:body-"+cls, "%s: body without the required %s (%s) answered with status %d body %q", where, rw.where, rw.kind, ex.Status, clipS(string(ex.RespBody)))
	}
}

func bodyOf(wire []byte) []byte {
	if i := bytes.Index(wire, []byte("\r\n\r\n")); i >= 0 {
		return wire[i+4:]
	}
	return nil
}
