// Package genlib holds the scenarios of the GEN engine: a generated client and
// a generated server per seeded design, talking through SimNet, judged by the
// reference model computed from the design spec.
package genlib

import (
	"bytes"
	"context"
	"crypto/sha256"
	"encoding/hex"
	"encoding/json"
	"errors"
	"fmt"
	"net/http"
	"os"
	"path/filepath"
	"reflect"
	"regexp"
	"runtime"
	"sort"
	"strings"

	goahttp "goa.design/goa/v3/http"
	goa "goa.design/goa/v3/pkg"
	"goa.design/goa/v3/security"
	"goa.design/goa/v3/verifsim"
	"verif/sim/engine"
	"verif/sim/gen"
	"verif/sim/simnet"
	"verif/sim/spec"
	"verif/sim/strgen"
)

func strgenNstr(t *verifsim.Tape) string { return strgen.Nstr(t, strgen.Letdig+"._-", 1, 8) }

var designCache = map[string]*spec.Design{}

func loadDesign(name string) (*spec.Design, error) {
	if d, ok := designCache[name]; ok {
		return d, nil
	}
	d, err := spec.Load(filepath.Join(os.Getenv("VERIF_SPEC_DIR"), name+".json"))
	if err == nil {
		// on the model side the result of a CollectionOf method is what it is: an array of the element type
		for _, sv := range d.Services {
			for _, m := range sv.Methods {
				if m.Collection && m.Result != nil && m.Result.Type.Kind == spec.User {
					m.Result = &spec.Attr{Type: &spec.Type{Kind: spec.Array, Elem: &spec.Attr{Type: m.Result.Type}}}
				}
			}
		}
		designCache[name] = d
	}
	return d, err
}

func init() {
	for _, p := range []string{"C02", "C03", "C04", "C05", "C06", "C08", "C14"} {
		p := p
		engine.Register(p, func(t *verifsim.Tape, cfg engine.Config) *engine.Outcome { return runExchange(t, cfg, p) })
	}
}

// call is the record of one service-side invocation.
type invocation struct {
	method string
	got    any // model value seen by the stub
}

type world struct {
	d       *spec.Design
	sys     *gen.System
	invoked []invocation
	// script for the next invocation
	result any // Go value to return
	view   string
	err    error
	authLog []authCall
	reject  map[string]bool
	// errors the generated handler gave up on (passed to the error handler a user supplies to New)
	unhandled []error
}

func (w *world) errHandler(ctx context.Context, rw http.ResponseWriter, err error) {
	w.unhandled = append(w.unhandled, err)
}

type authCall struct {
	kind   string
	scheme any
	creds  []string
}

func (w *world) handler(ctx context.Context, svc, method string, payload any) (any, string, error) {
	sv := findService(w.d, svc)
	var got any
	if m := findMethod(sv, method); m != nil && m.Payload != nil && payload != nil {
		got = gen.FromGo(w.d, reflect.ValueOf(payload), m.Payload.Type)
	}
	w.invoked = append(w.invoked, invocation{method, got})
	return w.result, w.view, w.err
}

func findService(d *spec.Design, name string) *spec.Service {
	for _, s := range d.Services {
		if s.Name == name {
			return s
		}
	}
	return nil
}

func findMethod(s *spec.Service, goName string) *spec.Method {
	if s == nil {
		return nil
	}
	n := gen.Norm(goName)
	for _, m := range s.Methods {
		if gen.Norm(m.Name) == n {
			return m
		}
	}
	return nil
}

func (w *world) auth(ctx context.Context, svc, kind string, scheme any, creds []string) (context.Context, error) {
	w.authLog = append(w.authLog, authCall{kind, scheme, creds})
	name := schemeName(scheme)
	if w.reject[name] {
		return ctx, goa.PermanentError("unauthorized", "rejected by %s (call %d)", name, len(w.authLog))
	}
	return ctx, nil
}

func schemeName(scheme any) string {
	switch s := scheme.(type) {
	case *security.BasicScheme:
		return s.Name
	case *security.APIKeyScheme:
		return s.Name
	case *security.JWTScheme:
		return s.Name
	case *security.OAuth2Scheme:
		return s.Name
	}
	return "?"
}

func schemeScopes(scheme any) (declared, required []string) {
	switch s := scheme.(type) {
	case *security.BasicScheme:
		return s.Scopes, s.RequiredScopes
	case *security.APIKeyScheme:
		return s.Scopes, s.RequiredScopes
	case *security.JWTScheme:
		return s.Scopes, s.RequiredScopes
	case *security.OAuth2Scheme:
		return s.Scopes, s.RequiredScopes
	}
	return nil, nil
}

// locOf tells where a top-level payload attribute travels.
func locOf(m *spec.Method, name string) gen.Loc {
	if _, ok := m.Headers[name]; ok {
		return gen.LocHeader
	}
	if _, ok := m.Cookies[name]; ok {
		return gen.LocCookie
	}
	if _, ok := m.Params[name]; ok {
		return gen.LocQuery
	}
	for _, r := range m.Routes {
		if strings.Contains(r.Path, "{"+name+"}") || strings.Contains(r.Path, "{*"+name+"}") {
			return gen.LocPath
		}
	}
	return gen.LocBody
}

// genPayload draws a valid payload for a method, respecting what each location can carry.
func genPayload(t *verifsim.Tape, d *spec.Design, m *spec.Method) any {
	if m.Payload == nil {
		return nil
	}
	pt := d.Resolve(m.Payload.Type)
	if pt.Kind != spec.Object {
		return gen.GenValid(t, d, m.Payload, gen.GenOpts{Loc: gen.LocBody})
	}
	obj := map[string]any{}
	for _, f := range pt.Fields {
		loc := locOf(m, f.Name)
		if f.Sec != "" {
			// credentials: outside C06 they are plain, always set, prefix-free tokens
			// (what C06 learns about spaces and prefixes is judged there)
			obj[f.Name] = "cred-" + strgenNstr(t)
			continue
		}
		present := f.Required || f.HasDef || t.Draw("present", 100) < 60
		if gen.MustBeSet(d, f) && !f.Required {
			present = t.Draw("leave-minlen-collection-unset", 8) != 7
		}
		if !present {
			continue
		}
		o := gen.GenOpts{Loc: loc, AvoidZero: f.HasDef && !f.Required, NonEmpty: loc != gen.LocBody}
		obj[f.Name] = gen.GenValid(t, d, f, o)
		if mv, ok := obj[f.Name].(*gen.MapVal); ok && loc == gen.LocQuery {
			// a map in the query string travels as name[key]=value with the key written as it is (the recorded
			// closing-bracket finding is one consequence): keys that turn into one another under query
			// unescaping ("+" and " ", "%41" and "A") are kept out, they would make two entries one
			seen := map[string]bool{}
			for i, k := range mv.K {
				ks, isStr := k.(string)
				if !isStr {
					continue
				}
				ks = strings.NewReplacer("+", "-", "%", "_").Replace(ks)
				for seen[ks] {
					ks += "x"
				}
				seen[ks] = true
				mv.K[i] = ks
			}
		}
		if sv, ok := obj[f.Name].(string); ok && isCatchAll(m, f.Name) {
			sv = catchAllValue(sv)
			if f.Val == nil && f.Type.Kind == spec.String {
				// a rest-of-path value that starts or ends with a separator (an absolute file name, a directory)
				switch t.Draw("catchall-edge", 8) {
				case 0:
					sv = "/" + sv
				case 1:
					sv += "/"
				case 2:
					sv = "/" + sv + "/"
				}
			}
			obj[f.Name] = sv
		} else if ok && loc == gen.LocPath && hasCatchAll(m) {
			// the recorded defect (a '/' inside a {name} value is sent unescaped) would shift every later segment
			// into the catch-all: it is exercised, and recorded, on the routes without one
			obj[f.Name] = strings.ReplaceAll(sv, "/", "_")
		}
	}
	oneCredentialPerCarrier(t, d, m, obj)
	return obj
}

// isCatchAll reports whether attribute name is a {*name} path parameter of the method.
func isCatchAll(m *spec.Method, name string) bool {
	for _, r := range m.Routes {
		if strings.Contains(r.Path, "{*"+name+"}") {
			return true
		}
	}
	return false
}

func hasCatchAll(m *spec.Method) bool {
	for _, r := range m.Routes {
		if strings.Contains(r.Path, "{*") {
			return true
		}
	}
	return false
}

// catchAllValue keeps the slashes of a drawn path value (they are path separators the caller put there) and
// removes what makes a URL ambiguous rather than a value different: "." and ".." segments. Empty segments (a value
// that starts or ends with '/', or has "//" inside) are part of the value: the wildcard takes the rest of the path as it is.
func catchAllValue(v string) string {
	segs := strings.Split(v, "/")
	for i, sg := range segs {
		if sg == "." || sg == ".." {
			segs[i] = "x" + sg
		}
	}
	return strings.Join(segs, "/")
}

// sharedCarriers lists, per header that carries the credentials of several schemes, the attributes reading it.
func sharedCarriers(d *spec.Design, m *spec.Method) map[string][]string {
	out := map[string][]string{}
	if m.Payload == nil {
		return out
	}
	for _, f := range d.Resolve(m.Payload.Type).Fields {
		if h, ok := m.Headers[f.Name]; ok && f.Sec != "" {
			out[h] = append(out[h], f.Name)
		}
	}
	for h, as := range out {
		if len(as) < 2 {
			delete(out, h)
		}
	}
	return out
}

// oneCredentialPerCarrier: a header holds one value, so of the credentials sharing one the caller sets one.
func oneCredentialPerCarrier(t *verifsim.Tape, d *spec.Design, m *spec.Method, obj map[string]any) {
	sc := sharedCarriers(d, m)
	hs := make([]string, 0, len(sc))
	for h := range sc {
		hs = append(hs, h)
	}
	sort.Strings(hs)
	for _, h := range hs {
		var set []string
		for _, a := range sc[h] {
			if obj[a] != nil {
				set = append(set, a)
			}
		}
		if len(set) < 2 {
			continue
		}
		keep := set[t.Draw("shared-carrier-keep", len(set))]
		for _, a := range set {
			if a != keep {
				delete(obj, a)
			}
		}
	}
}

// expectedPayload is what the service method must receive for a payload the caller expressed.
func expectedPayload(d *spec.Design, m *spec.Method, payload any) any {
	want := gen.Expected(d, payload, orNil(m.Payload))
	serverSideOfSharedCarriers(d, m, want)
	return want
}

// serverSideOfSharedCarriers: the server reads the one header value into every attribute mapped to it
// (scheme prefix removed).
func serverSideOfSharedCarriers(d *spec.Design, m *spec.Method, want any) {
	obj, _ := want.(map[string]any)
	if obj == nil {
		return
	}
	for _, as := range sharedCarriers(d, m) {
		var v any
		for _, a := range as {
			if obj[a] != nil {
				v = obj[a]
			}
		}
		if s, ok := v.(string); ok {
			if i := strings.Index(s, " "); i >= 0 {
				v = s[i+1:]
			}
		}
		for _, a := range as {
			if v != nil {
				obj[a] = v
			}
		}
	}
}

// leaveDefaultedResultsUnset: set for the property that is about it (C03); the other properties return results whose
// defaulted attributes are set, so that the recorded header/cookie defect does not stand in the way of what they judge
var leaveDefaultedResultsUnset bool

func genResult(t *verifsim.Tape, d *spec.Design, m *spec.Method, resp *spec.Response) any {
	if m.Result == nil {
		return nil
	}
	rt := d.Resolve(m.Result.Type)
	if rt.Kind != spec.Object {
		return gen.GenValid(t, d, m.Result, gen.GenOpts{Loc: gen.LocBody})
	}
	obj := map[string]any{}
	for _, f := range rt.Fields {
		loc := gen.LocBody
		if _, ok := resp.Headers[f.Name]; ok {
			loc = gen.LocHeader
		}
		if _, ok := resp.Cookies[f.Name]; ok {
			loc = gen.LocCookie
		}
		present := f.Required || f.HasDef || t.Draw("present", 100) < 60
		if gen.MustBeSet(d, f) && !f.Required {
			present = t.Draw("leave-minlen-collection-unset", 8) != 7
		}
		if leaveDefaultedResultsUnset && f.HasDef && !f.Required && t.Draw("leave-defaulted-result-attribute-unset", 4) == 0 {
			// the SERVICE leaves a defaulted attribute unset (its Go field keeps the zero value): the caller of the
			// client sees the declared default, wherever the attribute travels (C03's last clause)
			present = false
		}
		if !present {
			continue
		}
		obj[f.Name] = gen.GenValid(t, d, f, gen.GenOpts{Loc: loc, AvoidZero: f.HasDef && !f.Required, NonEmpty: loc != gen.LocBody})
	}
	return obj
}

func errName(err error) string {
	var n interface{ GoaErrorName() string }
	if errors.As(err, &n) {
		return n.GoaErrorName()
	}
	var ce *goahttp.ClientError
	if errors.As(err, &ce) {
		return "client:" + ce.Name
	}
	return fmt.Sprintf("?%T", err)
}

func pickMethod(t *verifsim.Tape, d *spec.Design) (*spec.Service, *spec.Method) {
	s := d.Services[t.Draw("service", len(d.Services))]
	return s, s.Methods[t.Draw("method", len(s.Methods))]
}

func featureSig(d *spec.Design, m *spec.Method) string {
	return strings.Join(d.Features, ",")
}

func runExchange(t *verifsim.Tape, cfg engine.Config, prop string) *engine.Outcome {
	o := &engine.Outcome{Features: map[string]int{}}
	verifsim.SetIdleTape(t)
	defer verifsim.SetIdleTape(nil)
	h := sha256.New()
	designs := gen.Designs()
	if len(designs) == 0 {
		o.Violate("harness_panic", "harness_panic", "no design linked")
		return o
	}
	name := designs[t.Draw("design", len(designs))]
	d, err := loadDesign(name)
	if err != nil {
		o.Violate("harness_panic", "harness_panic", "spec of %s: %v", name, err)
		return o
	}
	faulty := t.Draw("faulty-run", 3) == 2 && prop != "C14" // the contract check judges intact exchanges only
	ncfg := simnet.Config{Chunking: true, ForceChunked: 250, HeaderNoise: 250, DoubleClose: 100}
	if faulty {
		ncfg.CutRequest, ncfg.FlipRequest, ncfg.DupRequest, ncfg.DropRequest = 150, 150, 100, 50
		ncfg.CutResponse, ncfg.FlipResponse, ncfg.WriterError = 100, 100, 100
	}
	dropRun := !faulty && (prop == "C02" || prop == "C04" || prop == "C14") && t.Draw("drop-run", 2) == 0
	var curM *spec.Method
	if dropRun {
		// one designed element of the request is removed on the wire: the only way to see a
		// request that lacks a required primitive, or one whose default must be injected
		ncfg.DropElement = 350
		ncfg.Droppable = func(loc, wire string) bool { return curM != nil && droppedAttr(d, curM, loc, wire) != nil }
	}
	var curPayload any
	var curRW *bodyRewrite
	if !faulty && !dropRun && (prop == "C04" || prop == "C14") && t.Draw("rewrite-run", 2) == 0 {
		// the JSON body is edited on the wire: members dropped or nulled at any depth, values retyped, integers
		// pushed out of range (rewrite.go)
		kinds := []string{"drop", "drop", "null", "retype", "retype", "overflow", "extra"}
		if prop == "C14" {
			kinds = []string{"drop", "drop", "retype", "extra"}
		}
		ncfg.RewriteBodyRate = 600
		ncfg.RewriteBody = func(body []byte) []byte {
			if curM == nil {
				return nil
			}
			nb, rw := planRewrite(t, d, curM, curPayload, body, kinds)
			curRW = rw
			return nb
		}
	}
	if prop == "C08" && faulty {
		ncfg = simnet.Config{Chunking: true, HeaderNoise: 250, RewriteRate: 500,
			RewriteHeader: map[string][]string{"Goa-View": {"default", "tiny", "full", "extended", "nosuchview", ""}}}
	}
	leaveDefaultedResultsUnset = prop == "C03"
	w := &world{d: d}
	sys, err := gen.Assemble(name, t, ncfg, w.handler, w.auth, w.errHandler)
	if err != nil {
		o.Violate("harness_assemble", "harness_assemble", "%v", err)
		return o
	}
	w.sys = sys
	nEx := 6
	if cfg.Tier == "thorough" {
		nEx = 20
	}
	var samples []map[string]any
	distinct := map[string]bool{}
	for xi := 0; xi < nEx; xi++ {
		s, m := pickMethod(t, d)
		if prop == "C08" {
			// prefer methods whose result is a result type with views
			for k := 0; k < 6 && resultType(d, m) == nil; k++ {
				s, m = pickMethod(t, d)
			}
			if resultType(d, m) == nil {
				o.Features["c08_no_viewed_method_in_design"]++
				continue
			}
		}
		sh := sys.Handles[s.Name]
		mh := sh.Method(m.Name)
		if mh == nil {
			o.Violate("harness_glue", "harness_glue", "no generated method for %s.%s", s.Name, m.Name)
			return o
		}
		ep, err := sys.Endpoint(s.Name, m.Name)
		if err != nil {
			o.Violate("harness_glue", "harness_glue", "%v", err)
			return o
		}
		where := fmt.Sprintf("%s %s.%s", name, s.Name, m.Name)
		// ---- scenario for this exchange
		payload := genPayload(t, d, m)
		result := genResult(t, d, m, m.Responses[len(m.Responses)-1])
		resp := selectResponse(m, result)
		mode := "valid"
		w.reject = map[string]bool{}
		viewName, viewClass := "", ""
		if prop == "C08" {
			u := resultType(d, m)
			switch k := t.Draw("view-choice", 8); {
			case m.FixedView != "":
				viewName, viewClass = "", "fixed"
			case k == 0:
				viewName, viewClass = "", "empty"
			case k == 1 && len(u.Views) > 1:
				viewName, viewClass = "nosuchview", "undefined"
			default:
				viewName = u.Views[t.Draw("which-view", len(u.Views))].Name
				viewClass = "defined"
			}
			mode = "view:" + viewClass
		}
		var secPlan *secExpect
		if prop == "C06" {
			secPlan = planSecurity(t, d, s, m, payload, w.reject)
			mode = "security:" + secPlan.class
		}
		var brokenSite *gen.Site
		var scriptErr error
		var wantErr *spec.ErrorDef
		var errModel any
		switch prop {
		case "C14":
			mode = []string{"valid", "invalid-payload", "invalid-payload", "boundary-ok", "declared"}[t.Draw("c14-mode", 5)]
		case "C04":
			switch t.Draw("c04-mode", 4) {
			case 0, 1:
				mode = "invalid-payload"
			case 2:
				mode = "invalid-result"
			case 3:
				mode = "boundary-ok"
			}
		case "C05":
			mode = []string{"declared", "declared", "undeclared-service-error", "plain-error", "wrapped-declared", "valid", "wrapped-undeclared"}[t.Draw("c05-mode", 7)]
		}
		switch mode {
		case "invalid-payload", "boundary-ok":
			if m.Payload == nil {
				mode = "valid"
				break
			}
			cp := gen.DeepCopy(payload)
			sites := gen.Sites(d, cp, m.Payload, "", func(nv any) { cp = nv })
			if mode == "boundary-ok" {
				var b []gen.Site
				for _, s := range sites {
					if s.Rule == "min" || s.Rule == "max" || s.Rule == "max_length" || s.Rule == "min_length" {
						b = append(b, s)
					}
				}
				sites = b
			}
			if len(sites) == 0 {
				mode = "valid"
				break
			}
			st := sites[t.Draw("site", len(sites))]
			top := strings.SplitN(strings.TrimPrefix(st.Path, "."), ".", 2)[0]
			top = strings.SplitN(top, "[", 2)[0]
			loc := locOf(m, top)
			ok := false
			if mode == "boundary-ok" {
				ok = st.BoundaryOK(t, d, loc)
			} else {
				ok = st.Break(t, d, loc)
			}
			if !ok {
				mode = "valid"
				break
			}
			vs := gen.Validate(d, cp, m.Payload, "")
			if mode == "boundary-ok" {
				if len(vs) != 0 {
					mode = "valid"
					break
				}
			} else if len(vs) != 1 || vs[0].Rule != st.Rule {
				// the mutation broke something else as well: not a clean single violation
				o.Features["c04_unclean_mutation"]++
				mode = "valid"
				break
			}
			payload = cp
			brokenSite = &st
		case "invalid-result":
			if m.Result == nil || resultType(d, m) != nil {
				mode = "valid" // results rendered through a view are C08's subject
				break
			}
			cp := gen.DeepCopy(result)
			sites := gen.Sites(d, cp, m.Result, "", func(nv any) { cp = nv })
			if len(sites) == 0 {
				mode = "valid"
				break
			}
			st := sites[t.Draw("site", len(sites))]
			top := strings.SplitN(strings.TrimPrefix(st.Path, "."), ".", 2)[0]
			top = strings.SplitN(top, "[", 2)[0]
			loc := gen.LocBody
			if _, ok := resp.Headers[top]; ok {
				loc = gen.LocHeader
			}
			if _, ok := resp.Cookies[top]; ok {
				loc = gen.LocCookie
			}
			if !st.Break(t, d, loc) {
				mode = "valid"
				break
			}
			vs := gen.Validate(d, cp, m.Result, "")
			if len(vs) != 1 || vs[0].Rule != st.Rule || st.Rule == "required" {
				// a missing required result attribute cannot be expressed through a non-pointer field
				mode = "valid"
				break
			}
			result = cp
			brokenSite = &st
		case "declared", "wrapped-declared":
			all := append(append([]*spec.ErrorDef{}, m.Errors...), s.Errors...)
			if len(all) == 0 {
				mode = "valid"
				break
			}
			wantErr = all[t.Draw("which-error", len(all))]
			if wantErr.Type != nil {
				// an error with a designed type of its own: the stub returns a value of the generated type
				ev, model, err := customErrorValue(t, d, sh, wantErr)
				if err != nil {
					o.Violate("harness_glue", "harness_glue", "%s: custom error %q: %v", where, wantErr.Name, err)
					return o
				}
				scriptErr, errModel = ev, model
				if mode == "wrapped-declared" {
					scriptErr = fmt.Errorf("wrapped: %w", scriptErr)
				}
				break
			}
			mk := sh.Maker(wantErr.Name)
			if mk == nil {
				o.Violate("harness_glue", "harness_glue", "no Make function for declared error %q in %s", wantErr.Name, where)
				return o
			}
			scriptErr = mk(fmt.Errorf("declared failure %d", xi))
			if mode == "wrapped-declared" {
				scriptErr = fmt.Errorf("wrapped: %w", scriptErr)
			}
		case "undeclared-service-error", "wrapped-undeclared":
			fl := t.Draw("flags", 8)
			scriptErr = goa.NewServiceError(fmt.Errorf("undeclared failure %d", xi), "not_in_design", fl&1 != 0, fl&2 != 0, fl&4 != 0)
			if mode == "wrapped-undeclared" {
				// user code annotates the errors of its callees: a goa service error stays one through any chain of %w / Unwrap
				for k := 1 + t.Draw("wrap-depth", 3); k > 0; k-- {
					if t.Draw("wrap-how", 2) == 0 {
						scriptErr = fmt.Errorf("layer %d: %w", k, scriptErr)
					} else {
						scriptErr = &unwrapper{scriptErr}
					}
				}
			}
		case "plain-error":
			scriptErr = fmt.Errorf("plain failure %d", xi)
			if t.Draw("plain-error-percent", 3) == 0 {
				scriptErr = errors.New(fmt.Sprintf("plain failure %d: disk 100%% full, %%d of %%s left (%%!)", xi))
			}
			// plain errors come in kinds: some advertise Timeout()/Temporary() (context and net errors do); none of
			// that makes them anything but an internal fault of a service that did not declare them
			switch t.Draw("plain-error-kind", 6) {
			case 1:
				scriptErr = context.DeadlineExceeded
			case 2:
				scriptErr = fmt.Errorf("plain failure %d: %w", xi, os.ErrDeadlineExceeded)
			case 3:
				scriptErr = advertisingError{fmt.Sprintf("plain failure %d", xi), t.Draw("adv-timeout", 2) == 0, t.Draw("adv-temporary", 2) == 0}
			case 4:
				scriptErr = context.Canceled
			}
		}
		// ---- execute
		var goPayload any
		if m.Payload != nil && mh.Payload != nil {
			pv, err := gen.ToGo(d, payload, m.Payload.Type, mh.Payload)
			if err != nil {
				o.Violate("harness_values", "harness_values", "%s payload: %v", where, err)
				return o
			}
			goPayload = pv.Interface()
		}
		w.invoked, w.unhandled, w.authLog = nil, nil, nil
		sys.Net.Cfg.Reroute = nil
		if len(m.Routes) > 1 && t.Draw("use-second-route", 2) == 0 {
			alt, base := m.Routes[1], s.Path
			sys.Net.Cfg.Reroute = func(r *http.Request) bool {
				r.Method = alt.Verb
				r.URL.Path = base + "/r2" + strings.TrimPrefix(r.URL.Path, base)
				if r.URL.RawPath != "" {
					r.URL.RawPath = base + "/r2" + strings.TrimPrefix(r.URL.RawPath, base)
				}
				return true
			}
			o.Features["second_route_used"]++
		}
		curM, curPayload, curRW = m, payload, nil
		if mode != "valid" {
			curM = nil // elements are only dropped from otherwise valid requests
		}
		w.result, w.view, w.err = nil, viewName, scriptErr
		if m.Result != nil && mh.Result != nil && scriptErr == nil {
			rv, err := gen.ToGo(d, result, m.Result.Type, mh.Result)
			if err != nil {
				o.Violate("harness_values", "harness_values", "%s result: %v", where, err)
				return o
			}
			w.result = rv.Interface()
		}
		ex := &simnet.Exchange{}
		ctx := simnet.WithExchange(context.Background(), ex)
		var res any
		var cerr error
		var cpanic any
		func() {
			defer func() {
				if p := recover(); p != nil {
					cpanic = fmt.Sprintf("%v\n%s", p, panicSite())
				}
			}()
			res, cerr = ep(ctx, goPayload)
		}()
		fault := strings.Join(ex.Faults, ",")
		hardFault := ex.ReqFault != "" || ex.RespFault != "" || ex.WriterErrSeen || strings.Contains(fault, "dup_request")
		key := fmt.Sprintf("%s/%s/%s/%s", name, m.Name, mode, fault)
		distinct[key] = true
		o.Features["mode_"+mode]++
		for _, f := range ex.Faults {
			o.Features["fault_"+f]++
		}
		fmt.Fprintf(h, "%s|%d|%d|%v;", key, ex.Status, len(w.invoked), cerr != nil)
		sig := fmt.Sprintf("%s:%s", mode, sigOf(d, m, payload, result, brokenSite))
		if len(samples) < 2 {
			samples = append(samples, map[string]any{"design": name, "method": s.Name + "." + m.Name, "mode": mode, "payload": gen.Show(payload), "result": gen.Show(result),
				"faults": ex.Faults, "status": ex.Status, "invoked": len(w.invoked), "client_error": fmt.Sprint(cerr), "request_line": firstLineOf(ex.ReqWire)})
		}
		// ---- oracles common to every property ---------------------------------------
		if cpanic != nil {
			o.Violate("client_panic", "client_panic:"+panicClass(fmt.Sprint(cpanic), ex), "%s: generated client panicked: %v (payload %s, faults %v, response body %q)", where, cpanic, gen.Show(payload), ex.Faults, clipS(string(ex.RespWire)))
			continue
		}
		if ex.HandlerPanic != nil && ex.HandlerPanic != "http.ErrAbortHandler" && !(prop == "C08" && viewClass == "undefined") {
			o.Violate("handler_panic", panicCause(d, m, result, ex), "%s: generated server panicked: %v\n%s (payload %s, result %s, faults %v)", where, ex.HandlerPanic, genFrames(ex.PanicStack), gen.Show(payload), gen.Show(result), ex.Faults)
			continue
		}
		// user code only ever sees values that satisfy the design (whatever the network did)
		for _, inv := range w.invoked {
			if m.Payload != nil {
				if vs := gen.Validate(d, inv.got, m.Payload, ""); len(vs) > 0 && !formatOnly(vs) {
					o.Violate("invalid_payload_reached_service", "reached:"+reachedClass(d, m, vs[0]), "%s: the service method ran on %s which violates %v (sent %s, faults %v)", where, gen.Show(inv.got), vs, gen.Show(payload), ex.Faults)
				}
			}
		}
		if ex.Served > 0 && ex.WriteHeaders != 1 && !(ex.WriteHeaders == 0 && ex.Status == 200) {
			o.Violate("write_header_count", "write_header_count:"+sig, "%s: WriteHeader called %d times (status %d, faults %v)", where, ex.WriteHeaders, ex.Status, ex.Faults)
		}
		if len(w.unhandled) > 0 && !hardFault {
			o.Violate("response_encoding_failed", "response_encoding_failed:"+sig, "%s: the generated handler could not write its response: %v (payload %s, result %s, status %d body %q)", where, w.unhandled[0], gen.Show(payload), gen.Show(result), ex.Status, clipS(string(ex.RespBody)))
			continue
		}
		if ex.DroppedLoc != "" {
			judgeDropped(o, w, d, name, s, m, ex, payload, prop, where)
			continue
		}
		if ex.BodyRewritten && curRW != nil {
			judgeRewritten(o, w, d, name, s, m, ex, payload, curRW, prop, where)
			continue
		}
		if hardFault && prop != "C08" {
			o.Features["exchanges_under_fault"]++
			judgeFaulty(o, w, d, m, ex, payload, where, sig, cerr)
			continue
		}
		// ---- fault-free exchange -------------------------------------------------------
		if c := classifyFailureAny(d, m, payload, result, ex); c != "" && mode != "valid" && mode != "boundary-ok" {
			// a defect class that already has its own signature got in the way of this exchange
			o.Violate("valid_request_failed", "valid_failed:"+c, "%s: %s (mode %s, payload %s, status %d, body %q)", where, c, mode, gen.Show(payload), ex.Status, clipS(string(ex.RespBody)))
			continue
		}
		if prop == "C08" {
			judgeView(o, w, d, s, m, ex, result, res, viewName, viewClass, cerr, where)
			continue
		}
		if prop == "C14" {
			judgeContract(o, w, d, name, s, m, ex, mode, brokenSite, payload, where)
			continue
		}
		if resultType(d, m) != nil && (mode == "valid" || mode == "boundary-ok") && (prop == "C03" || prop == "C05") && cerr == nil {
			// a result type is rendered through its default (or fixed) view: the view oracle
			// is the one that knows what must arrive
			vc := "empty"
			if m.FixedView != "" {
				vc = "fixed"
			}
			judgeView(o, w, d, s, m, ex, result, res, "", vc, cerr, where)
			continue
		}
		if secPlan != nil {
			judgeSecurity(o, w, d, s, m, ex, secPlan, cerr, where)
			continue
		}
		switch mode {
		case "valid", "boundary-ok":
			if cerr != nil {
				o.Violate("valid_request_failed", "valid_failed:"+classifyFailure(d, m, payload, result, ex, cerr), "%s: valid payload %s failed: %v (status %d, body %q)", where, gen.Show(payload), cerr, ex.Status, clipS(string(ex.RespBody)))
				continue
			}
			if len(w.invoked) != 1 {
				o.Violate("invocation_count", "invocations:"+sig, "%s: service invoked %d times for one request", where, len(w.invoked))
				continue
			}
			if prop == "C02" || prop == "C04" {
				want := expectedPayload(d, m, payload)
				if diff := gen.Diff(want, w.invoked[0].got, ""); diff != "" {
					o.Violate("payload_delivery", "delivery:"+deliverySig(diffClassP(d, m, diff, payload), sig), "%s: payload changed in transit: %s\n  sent     %s\n  received %s\n  request  %s", where, diff, gen.Show(payload), gen.Show(w.invoked[0].got), firstLineOf(ex.ReqWire))
				}
				for _, e := range CheckRequestPlacement(d, s, m, payload, ex.ReqWire) {
					o.Violate("request_placement", "placement:"+placementClass(e)+":"+sig, "%s: %s\n  payload %s\n  request %s", where, e, gen.Show(payload), clipS(string(ex.ReqWire)))
					break
				}
			}
			if prop == "C03" || prop == "C05" {
				if ex.Status != resp.Status {
					o.Violate("response_status", "status:"+sig, "%s: status %d, design says %d", where, ex.Status, resp.Status)
				}
				if m.Result != nil {
					got := gen.FromGo(d, reflect.ValueOf(res), m.Result.Type)
					want := gen.Expected(d, result, m.Result)
					if diff := gen.Diff(want, got, ""); diff != "" && unsetDefaultedOutsideBody(d, m, resp, result, diff) {
						o.Violate("result_delivery", "rdelivery:unset-defaulted-nonstring-in-header-or-cookie", "%s: %s\n  returned by service %s\n  seen by client      %s\n  headers %v", where, diff, gen.Show(result), gen.Show(got), ex.RespHeader)
					} else if diff != "" {
						o.Violate("result_delivery", "rdelivery:"+diffClass(d, m, diff)+":"+sig, "%s: result changed in transit: %s\n  returned by service %s\n  seen by client      %s\n  response body %q headers %v", where, diff, gen.Show(result), gen.Show(got), clipS(string(ex.RespBody)), ex.RespHeader)
					}
					for _, e := range CheckResponsePlacement(d, m, resp, result, ex.RespHeader, ex.RespBody) {
						o.Violate("response_placement", "rplacement:"+placementClass(e)+":"+sig, "%s: %s\n  result %s\n  headers %v body %q", where, e, gen.Show(result), ex.RespHeader, clipS(string(ex.RespBody)))
						break
					}
				}
			}
		case "invalid-payload":
			o.Features["c04_rule_"+brokenSite.Rule]++
			if len(w.invoked) != 0 {
				// reported above as invalid_payload_reached_service unless format-only
				if brokenSite.Rule == "format" {
					o.Violate("invalid_payload_reached_service", "reached:format:"+sig, "%s: the service method ran on %s whose %s is malformed by construction", where, gen.Show(w.invoked[0].got), brokenSite.Path)
				}
				continue
			}
			if ex.Status < 400 || ex.Status > 499 {
				o.Violate("invalid_status", "invalid_status:"+sig, "%s: payload violating %s at %s answered with status %d", where, brokenSite.Rule, brokenSite.Path, ex.Status)
				continue
			}
			var er goahttp.ErrorResponse
			if err := json.Unmarshal(ex.RespBody, &er); err != nil || er.Name == "" {
				o.Violate("invalid_error_body", "invalid_error_body:"+sig, "%s: 4xx body is not an error response: %q", where, clipS(string(ex.RespBody)))
				continue
			}
			if want := ruleErrorNames[brokenSite.Rule]; !contains(want, er.Name) {
				o.Violate("invalid_error_name", "invalid_error_name:"+brokenSite.Rule+"->"+er.Name+":"+sig, "%s: payload violating %s at %s answered with error %q (%s), want one of %v", where, brokenSite.Rule, brokenSite.Path, er.Name, er.Message, want)
			}
		case "invalid-result":
			o.Features["c04_result_rule_"+brokenSite.Rule]++
			if cerr == nil {
				got := gen.FromGo(d, reflect.ValueOf(res), m.Result.Type)
				if vs := gen.Validate(d, got, m.Result, ""); len(vs) == 0 && brokenSite.Rule != "format" {
					// what the client returned satisfies the constraints (e.g. an empty string
					// was not transmitted and the default took its place): nothing invalid got through
					o.Features["invalid_result_arrived_valid"]++
					continue
				}
				if brokenSite.Rule == "excl_max_beside_excl_min" {
					o.Violate("invalid_result_accepted", "invalid_result:"+exclMaxDefect, "%s: the client returned %s although %s violates %s", where, gen.Show(got), brokenSite.Path, brokenSite.Rule)
					continue
				}
				o.Violate("invalid_result_accepted", "invalid_result:"+brokenSite.Rule+":"+sig, "%s: the client returned %s although %s violates %s", where, gen.Show(got), brokenSite.Path, brokenSite.Rule)
			} else if n := errName(cerr); !contains(ruleErrorNames[brokenSite.Rule], strings.TrimPrefix(n, "client:")) && !strings.Contains(cerr.Error(), "invalid") {
				o.Violate("invalid_result_error", "invalid_result_error:"+n+":"+sig, "%s: result violating %s at %s made the client fail with %v", where, brokenSite.Rule, brokenSite.Path, cerr)
			}
		default:
			if wantErr != nil && wantErr.Type != nil {
				judgeCustomError(o, w, d, s, m, ex, mode, wantErr, errModel, cerr, where, sig)
			} else {
				judgeError(o, w, d, s, m, ex, mode, wantErr, scriptErr, cerr, where, sig)
			}
		}
	}
	ks := make([]string, 0, len(distinct))
	for k := range distinct {
		ks = append(ks, k)
	}
	sort.Strings(ks)
	o.Extra = map[string]string{"distinct_keys": strings.Join(ks, "\n")}
	o.Features["_evaluations"] = nEx
	o.Nontrivial = true
	o.Distinct = hex.EncodeToString(h.Sum(nil))[:16]
	o.Digest = o.Distinct
	o.Sample = samples
	return o
}

var ruleErrorNames = map[string][]string{
	"required":   {"missing_field", "missing_payload", "invalid_field_type", "decode_payload"},
	"enum":       {"invalid_enum_value"},
	"format":     {"invalid_format"},
	"pattern":    {"invalid_pattern"},
	"min":        {"invalid_range"},
	"max":        {"invalid_range"},
	"excl_min":   {"invalid_range"},
	"excl_max":   {"invalid_range"},
	"excl_max_beside_excl_min": {"invalid_range"},
	"min_length": {"invalid_length"},
	"max_length": {"invalid_length"},
}

func contains(s []string, x string) bool {
	for _, y := range s {
		if y == x {
			return true
		}
	}
	return false
}

func orNil(a *spec.Attr) *spec.Attr {
	if a == nil {
		return &spec.Attr{Type: &spec.Type{Kind: spec.Object}}
	}
	return a
}

func formatOnly(vs []gen.Violation) bool {
	for _, v := range vs {
		if v.Rule != "format" {
			return false
		}
	}
	return true
}

func firstLineOf(b []byte) string {
	s := string(b)
	if i := strings.Index(s, "\r\n"); i >= 0 {
		s = s[:i]
	}
	return clipS(s)
}

// diffClass turns "a.b: want X, got Y" into a signature: attribute location and type.
// queryMapBracketKey names a map attribute carried in the query string one of whose keys contains ']':
// the wire form name[key]=value has no escaping for it (known finding).
func queryMapBracketKey(d *spec.Design, m *spec.Method, payload any, attr string) bool {
	obj, _ := payload.(map[string]any)
	if _, inQuery := m.Params[attr]; !inQuery {
		return false
	}
	if mv, ok := obj[attr].(*gen.MapVal); ok {
		for _, k := range mv.K {
			if ks, ok := k.(string); ok && strings.Contains(ks, "]") {
				return true
			}
		}
	}
	return false
}

func diffClassP(d *spec.Design, m *spec.Method, diff string, payload any) string {
	path := diff
	if i := strings.Index(diff, ":"); i > 0 {
		path = diff[:i]
	}
	top := strings.SplitN(strings.SplitN(path, ".", 2)[0], "[", 2)[0]
	if queryMapBracketKey(d, m, payload, top) {
		return "query-map-key-contains-closing-bracket"
	}
	return diffClass(d, m, diff)
}

func diffClass(d *spec.Design, m *spec.Method, diff string) string {
	path := diff
	if i := strings.Index(diff, ":"); i > 0 {
		path = diff[:i]
	}
	top := strings.SplitN(strings.SplitN(path, ".", 2)[0], "[", 2)[0]
	kind := "?"
	if m.Payload != nil {
		if f := d.Resolve(m.Payload.Type).Field(top); f != nil {
			kind = d.Resolve(f.Type).Kind
			if kind == spec.Array {
				kind += "-of-" + d.Resolve(d.Resolve(f.Type).Elem.Type).Kind
			}
		}
	}
	unset := ""
	if strings.Contains(diff, "got <unset>") {
		unset = ",lost"
	}
	return fmt.Sprintf("loc=%s,type=%s%s", locOf(m, top), kind, unset)
}

func placementClass(e string) string {
	for _, k := range []string{"query key", "header", "cookie", "path", "body"} {
		if strings.Contains(e, k) {
			return strings.ReplaceAll(k, " ", "-")
		}
	}
	return "other"
}

// advertisingError is a plain error with the Timeout/Temporary methods net errors have.
type advertisingError struct {
	msg                string
	timeout, temporary bool
}

func (e advertisingError) Error() string   { return e.msg }
func (e advertisingError) Timeout() bool   { return e.timeout }
func (e advertisingError) Temporary() bool { return e.temporary }

// sigOf is the feature signature of an exchange: what kind of attribute was
// involved, not which design it came from.
func sigOf(d *spec.Design, m *spec.Method, payload, result any, st *gen.Site) string {
	if st != nil {
		return st.Rule
	}
	return "-"
}

// judgeFaulty applies the relaxed, deliberately narrow oracle after an
// injected fault: an operation may fail or not happen; it may never deliver a
// wrong value as if nothing had happened.
func judgeFaulty(o *engine.Outcome, w *world, d *spec.Design, m *spec.Method, ex *simnet.Exchange, payload any, where, sig string, cerr error) {
	want := expectedPayload(d, m, payload)
	switch {
	case ex.ReqFault == "drop_request":
		if len(w.invoked) != 0 || cerr == nil {
			o.Violate("fault_drop", "fault_drop", "%s: request dropped by the network but invoked=%d err=%v", where, len(w.invoked), cerr)
		}
	case ex.ReqFault == "cut_request":
		// a truncated request may be refused or served; what a served prefix denotes under
		// the design is not recomputed here: the safety oracle above (whatever reaches user
		// code satisfies every constraint) is the judge
		for _, inv := range w.invoked {
			if gen.Diff(want, inv.got, "") != "" {
				o.Features["fault_cut_request_served_other_value"]++
			}
		}
	case strings.Contains(strings.Join(ex.Faults, ","), "dup_request") && ex.ReqFault == "" && ex.RespFault == "" && !ex.WriterErrSeen:
		if w.err == nil && len(w.invoked) == 2 {
			if !gen.Equal(w.invoked[0].got, w.invoked[1].got) {
				// (keys of a query map that contain ']' arrive cut short - the recorded finding - and two of them cut to the
				// same text make the decoded map depend on the order in which the server walks the query values)
				if diff := gen.Diff(w.invoked[0].got, w.invoked[1].got, ""); diffClassP(d, m, diff, payload) == "query-map-key-contains-closing-bracket" {
					o.Features["known_defect_class_in_the_way"]++
					return
				}
				o.Violate("fault_dup_differs", "fault_dup_differs", "%s: duplicated request delivered two different payloads: %s vs %s", where, gen.Show(w.invoked[0].got), gen.Show(w.invoked[1].got))
			}
		}
	}
	if (ex.RespFault == "cut_response") && cerr == nil && m.Result != nil {
		o.Features["fault_cut_response_survived"]++
	}
}

func judgeError(o *engine.Outcome, w *world, d *spec.Design, s *spec.Service, m *spec.Method, ex *simnet.Exchange, mode string, want *spec.ErrorDef, scriptErr, cerr error, where, sig string) {
	if len(w.invoked) != 1 {
		o.Violate("invocation_count", "invocations:"+sig, "%s: service invoked %d times", where, len(w.invoked))
		return
	}
	if cerr == nil {
		o.Violate("error_lost", "error_lost:"+mode, "%s: the service returned %v but the client saw success (status %d)", where, scriptErr, ex.Status)
		return
	}
	switch mode {
	case "declared", "wrapped-declared":
		o.Features["c05_declared"]++
		if ex.Status != want.Status {
			o.Violate("error_status", "error_status:"+mode, "%s: declared error %q went out with status %d, design says %d", where, want.Name, ex.Status, want.Status)
		}
		if n := errName(cerr); n != want.Name {
			o.Violate("error_name", "error_name:"+mode, "%s: declared error %q reached the client as %q (%v); body %q", where, want.Name, n, cerr, clipS(string(ex.RespBody)))
			return
		}
		var se *goa.ServiceError
		var orig *goa.ServiceError
		errors.As(scriptErr, &orig)
		if errors.As(cerr, &se) && orig != nil {
			if se.Message != orig.Message || se.ID != orig.ID || se.Temporary != orig.Temporary || se.Timeout != orig.Timeout || se.Fault != orig.Fault {
				o.Violate("error_fields", "error_fields:"+mode, "%s: declared error %q changed in transit: sent {id:%s msg:%q tmp:%v to:%v fault:%v} got {id:%s msg:%q tmp:%v to:%v fault:%v}", where, want.Name,
					orig.ID, orig.Message, orig.Temporary, orig.Timeout, orig.Fault, se.ID, se.Message, se.Temporary, se.Timeout, se.Fault)
			}
		}
		if want.Temporary != orig.Temporary || want.Timeout != orig.Timeout || want.Fault != orig.Fault {
			o.Violate("error_flags_design", "error_flags_design", "%s: Make%s produced flags tmp:%v to:%v fault:%v, design says tmp:%v to:%v fault:%v", where, want.Name, orig.Temporary, orig.Timeout, orig.Fault, want.Temporary, want.Timeout, want.Fault)
		}
	case "undeclared-service-error", "wrapped-undeclared":
		o.Features["c05_undeclared"]++
		if mode == "wrapped-undeclared" {
			o.Features["c05_undeclared_wrapped"]++
		}
		var orig *goa.ServiceError
		errors.As(scriptErr, &orig)
		wantStatus := 400
		switch {
		case orig.Fault:
			wantStatus = 500
		case orig.Timeout && orig.Temporary:
			wantStatus = 504
		case orig.Timeout:
			wantStatus = 408
		case orig.Temporary:
			wantStatus = 503
		}
		if ex.Status != wantStatus {
			o.Violate("default_error_status", fmt.Sprintf("default_error_status:%sfault=%v,timeout=%v,temporary=%v", map[bool]string{true: "wrapped,"}[mode == "wrapped-undeclared"], orig.Fault, orig.Timeout, orig.Temporary), "%s: undeclared service error (fault=%v timeout=%v temporary=%v) went out with status %d, documented default is %d", where, orig.Fault, orig.Timeout, orig.Temporary, ex.Status, wantStatus)
		}
		var er goahttp.ErrorResponse
		if err := json.Unmarshal(ex.RespBody, &er); err != nil || er.Name != "not_in_design" || er.ID != orig.ID || er.Fault != orig.Fault || er.Timeout != orig.Timeout || er.Temporary != orig.Temporary {
			o.Violate("default_error_body", "default_error_body", "%s: undeclared service error body %q does not carry the error (name not_in_design id %s)", where, clipS(string(ex.RespBody)), orig.ID)
		}
	case "plain-error":
		o.Features["c05_plain"]++
		if ex.Status != 500 {
			o.Violate("plain_error_status", "plain_error_status", "%s: a plain Go error went out with status %d, want 500", where, ex.Status)
		}
		var er goahttp.ErrorResponse
		if err := json.Unmarshal(ex.RespBody, &er); err != nil || !er.Fault || er.Name != "fault" {
			o.Violate("plain_error_body", "plain_error_body", "%s: a plain Go error produced body %q, want a fault error response", where, clipS(string(ex.RespBody)))
		} else if scriptErr != nil && er.Message != scriptErr.Error() {
			// (the only thing the service said: the fault carries the error's text as it is)
			o.Violate("plain_error_body", "plain_error_message", "%s: the fault's message is %q, the service's error says %q", where, er.Message, scriptErr.Error())
		}
	}
	ct := ex.RespHeader.Get("Content-Type")
	var js any
	if want != nil && want.EmptyBody && (mode == "declared" || mode == "wrapped-declared") {
		// designed without a body: everything travels in headers (the client-side comparison above has judged them)
		if len(bytes.TrimSpace(ex.RespBody)) != 0 {
			o.Violate("error_body_malformed", "error_body_not_empty:"+mode, "%s: error %q is designed with an empty body and went out with %q", where, want.Name, clipS(string(ex.RespBody)))
		}
		o.Features["c05_empty_body_error"]++
		return
	}
	if !strings.Contains(ct, "json") || json.Unmarshal(ex.RespBody, &js) != nil {
		o.Violate("error_body_malformed", "error_body_malformed:"+mode, "%s: error response body %q does not parse under Content-Type %q", where, clipS(string(ex.RespBody)), ct)
	}
}


// unwrapper is a user error type that wraps another one the standard way.
type unwrapper struct{ err error }

func (u *unwrapper) Error() string { return "annotated: " + u.err.Error() }
func (u *unwrapper) Unwrap() error { return u.err }

// unsetDefaultedOutsideBody reports whether a delivery difference (or, with diff == "", any attribute of the result)
// is the recorded defect: a result attribute with a declared default, of a non-string primitive kind, mapped to a
// response header or cookie, that the service left unset. The server sends the zero value's text ("0", "false"), the
// client takes it for a value: the default is lost, and when the attribute is validated the client refuses the response.
func unsetDefaultedOutsideBody(d *spec.Design, m *spec.Method, resp *spec.Response, result any, diff string) bool {
	if m.Result == nil || resp == nil {
		return false
	}
	rt := d.Resolve(m.Result.Type)
	obj, _ := result.(map[string]any)
	if rt.Kind != spec.Object {
		return false
	}
	top := strings.SplitN(strings.SplitN(strings.TrimPrefix(diff, "."), ":", 2)[0], ".", 2)[0]
	for _, f := range rt.Fields {
		_, inH := resp.Headers[f.Name]
		_, inC := resp.Cookies[f.Name]
		if !(inH || inC) || !f.HasDef || obj[f.Name] != nil || d.Resolve(f.Type).Kind == spec.String {
			continue
		}
		if diff == "" || top == f.Name {
			return true
		}
	}
	return false
}

// classifyFailure names the cause class of a failed valid exchange from the
// design and the values (the signature known findings are matched on).
func classifyFailure(d *spec.Design, m *spec.Method, payload, result any, ex *simnet.Exchange, cerr error) string {
	obj, _ := payload.(map[string]any)
	if ex.Status == 404 {
		for _, r := range m.Routes {
			for k, v := range obj {
				if s, ok := v.(string); ok && strings.Contains(r.Path, "{"+k+"}") && strings.Contains(s, "/") {
					return "path-param-contains-slash"
				}
			}
		}
	}
	msg := cerr.Error()
	if strings.Contains(msg, "invalid response") && strings.Contains(msg, "is missing from") && sameNestedTypeTwoViews(d, resultType(d, m)) {
		return "view:same-nested-type-under-two-views"
	}
	if u := resultType(d, m); u != nil && strings.Contains(msg, "invalid response") && strings.Contains(msg, "is missing from") {
		for _, sv := range d.Services {
			for _, x := range sv.Methods {
				if x != m {
					continue
				}
				for _, v := range u.Views {
					if (m.FixedView == "" || m.FixedView == v.Name) && nestedUnderSeveralViews(d, sv, m, u, v.Name) {
						return "view:nested-type-under-several-views-in-one-service"
					}
				}
			}
		}
	}
	if strings.Contains(msg, "invalid response") && ex.Status < 400 && unsetDefaultedOutsideBody(d, m, selectResponse(m, result), result, "") {
		return "unset-defaulted-nonstring-in-header-or-cookie"
	}
	absentMinLen := func(a *spec.Attr, v any) bool {
		if a == nil {
			return false
		}
		t := d.Resolve(a.Type)
		o, _ := v.(map[string]any)
		if t.Kind != spec.Object {
			return false
		}
		for _, f := range t.Fields {
			k := d.Resolve(f.Type).Kind
			if (k == spec.Array || k == spec.Map) && !f.Required && f.Val != nil && f.Val.MinLength != nil && *f.Val.MinLength > 0 && o[f.Name] == nil {
				return true
			}
		}
		return false
	}
	if strings.Contains(msg, "length of") && strings.Contains(msg, "invalid response") && absentMinLen(m.Result, result) {
		return "optional-collection-with-min-length-left-unset:response"
	}
	// (when the method also declares an error of its own on status 400 the client reads the server's invalid_length
	// answer as that error and complains about ITS shape: the server's answer is what tells)
	if (strings.Contains(msg, "length of") || strings.Contains(string(ex.RespBody), `"name":"invalid_length"`)) && ex.Status == 400 && absentMinLen(m.Payload, payload) {
		return "optional-collection-with-min-length-left-unset:request"
	}
	return errName(cerr) + fmt.Sprintf(":status=%d", ex.Status)
}


// reachedClass names why an invalid payload got through, when the cause is a
// recognisable structural one.
func reachedClass(d *spec.Design, m *spec.Method, v gen.Violation) string {
	top := strings.SplitN(strings.SplitN(strings.TrimPrefix(v.Path, "."), ".", 2)[0], "[", 2)[0]
	loc := locOf(m, top)
	if loc != gen.LocBody && m.Payload != nil {
		pt := d.Resolve(m.Payload.Type)
		for c := range m.Cookies {
			if f := pt.Field(c); f != nil && f.Required {
				return "validation-error-dropped-by-required-cookie"
			}
		}
	}
	if v.Rule == "excl_max_beside_excl_min" {
		return exclMaxDefect
	}
	return v.Rule + ":loc=" + loc.String()
}

// exclMaxDefect: the signature of the known finding "an exclusive maximum declared next to an exclusive minimum is
// never checked by generated validation code" (see gen.ExclMaxRule).
const exclMaxDefect = "excl_max-never-checked-beside-excl_min"

// classifyFailureAny recognises, in any mode, the defect classes that make a
// request fail before the scenario's own subject is reached.
func classifyFailureAny(d *spec.Design, m *spec.Method, payload, result any, ex *simnet.Exchange, cerrs ...error) string {
	msgs := []error{fmt.Errorf("%s", ex.RespBody)}
	for _, e := range cerrs {
		if e != nil {
			msgs = append(msgs, e)
		}
	}
	for _, e := range msgs {
		c := classifyFailure(d, m, payload, result, ex, e)
		if c == "path-param-contains-slash" || strings.HasPrefix(c, "optional-collection-with-min-length-left-unset") || c == "view:same-nested-type-under-two-views" || c == "view:nested-type-under-several-views-in-one-service" || c == "unset-defaulted-nonstring-in-header-or-cookie" {
			return c
		}
	}
	return ""
}


// panicSite returns the frames of the generated code on the panicking stack.
func panicSite() string {
	pcs := make([]uintptr, 40)
	n := runtime.Callers(3, pcs)
	fr := runtime.CallersFrames(pcs[:n])
	var out []string
	for {
		f, more := fr.Next()
		if strings.Contains(f.File, "/gen/") && !strings.Contains(f.File, "/verif/sim/") {
			i := strings.Index(f.File, "/gen/")
			fn := f.Function
			if j := strings.LastIndex(fn, "/"); j >= 0 {
				fn = fn[j+1:]
			}
			out = append(out, fmt.Sprintf("%s:%d %s", f.File[i+5:], f.Line, fn))
		}
		if !more || len(out) >= 4 {
			break
		}
	}
	return strings.Join(out, " <- ")
}


func panicClass(p string, ex *simnet.Exchange) string {
	fn := ""
	if i := strings.Index(p, "\n"); i >= 0 {
		site := p[i+1:]
		parts := strings.Fields(strings.SplitN(site, " <- ", 2)[0])
		if len(parts) == 2 {
			fn = parts[1]
			// drop design-specific type names: unmarshalT3TypeResponseBodyToAlphaT3Type -> unmarshal*
			for _, pre := range []string{"unmarshal", "marshal", "transform", "Validate", "New", "Decode", "Encode", "Build"} {
				if k := strings.Index(fn, "."+pre); k >= 0 {
					fn = pre + "*"
					break
				}
			}
		}
	}
	f := "fault-free"
	if ex.RespFault != "" {
		f = ex.RespFault
	}
	return f + ":" + fn
}


// ---------------------------------------------------------------------------
// C06: security requirements
// ---------------------------------------------------------------------------

type secCall struct {
	scheme   string
	kind     string
	creds    []string
	declared []string
	required []string
}

type secExpect struct {
	class   string
	calls   []secCall // callbacks expected, in order
	invoked bool
}

var tokenPool = []string{"abc.def.ghi", "t0k3n", "Bearer abc.def", "bearer xyz", "é世-token", "a:b;c=d", "x+y/z==", "Basic notbasic", "Bearer a b c", "tok en  two"}
var keyPool = []string{"k3y", "secret key", "é世", "a:b", "x+y/z==", "key with two spaces", "Bearer looks-like-a-token"}
var userPool = []string{"alice", "bob smith", "é世", "u+1", "Al/ice"}
var passPool = []string{"s3cret", "p:a:ss", "pass word", "é世&=", ""}

// planSecurity installs credentials in the payload (model form), draws the
// accept/reject vector and computes the expected callback sequence.
func planSecurity(t *verifsim.Tape, d *spec.Design, s *spec.Service, m *spec.Method, payload any, reject map[string]bool) *secExpect {
	e := &secExpect{class: "none"}
	reqs := gen.Effective(d, s, m)
	obj, _ := payload.(map[string]any)
	if m.NoSec {
		e.class = "no-security"
	}
	if len(reqs) == 0 || obj == nil {
		e.invoked = true
		if len(d.Schemes) > 0 && !m.NoSec {
			e.class = "unsecured"
		}
		return e
	}
	e.class = fmt.Sprintf("reqs=%d", len(reqs))
	pt := d.Resolve(m.Payload.Type)
	for _, sc := range d.Schemes {
		reject[sc.Name] = t.Draw("reject-"+sc.Kind, 5) < 2
	}
	// credentials as the caller sets them
	for _, f := range pt.Fields {
		if f.Sec == "" {
			continue
		}
		set := f.Required || t.Draw("cred-set", 4) != 0
		if !set {
			delete(obj, f.Name)
			continue
		}
		switch {
		case f.Sec == "username":
			obj[f.Name] = userPool[t.Draw("user", len(userPool))]
		case f.Sec == "password":
			obj[f.Name] = passPool[t.Draw("pass", len(passPool))]
		case strings.HasPrefix(f.Sec, "apikey:"):
			obj[f.Name] = keyPool[t.Draw("key", len(keyPool))]
		default:
			obj[f.Name] = tokenPool[t.Draw("token", len(tokenPool))]
		}
		if f.Required && obj[f.Name] == "" {
			obj[f.Name] = "x"
		}
	}
	// Basic credentials travel together: SetBasicAuth needs both
	var uf, pf *spec.Attr
	for _, f := range pt.Fields {
		if f.Sec == "username" {
			uf = f
		}
		if f.Sec == "password" {
			pf = f
		}
	}
	if uf != nil && pf != nil && (obj[uf.Name] == nil) != (obj[pf.Name] == nil) {
		if obj[uf.Name] == nil {
			obj[uf.Name] = "alice"
		} else {
			obj[pf.Name] = "s3cret"
		}
	}
	oneCredentialPerCarrier(t, d, m, obj)
	shared := map[string]string{} // attribute -> the attribute whose value its header carries
	for _, as := range sharedCarriers(d, m) {
		for _, a := range as {
			if obj[a] != nil {
				for _, b := range as {
					shared[b] = a
				}
			}
		}
	}
	cred := func(sc *spec.Scheme) []string {
		str := func(name string) string {
			if src, ok := shared[name]; ok {
				name = src
			}
			if v, ok := obj[name].(string); ok {
				return v
			}
			return ""
		}
		for _, f := range pt.Fields {
			switch {
			case sc.Kind == "basic" && f.Sec == "username":
				return []string{str(uf.Name), str(pf.Name)}
			case sc.Kind == "apikey" && f.Sec == "apikey:"+sc.Name:
				return []string{str(f.Name)}
			case (sc.Kind == "jwt" && f.Sec == "token") || (sc.Kind == "oauth2" && f.Sec == "accesstoken"):
				v := str(f.Name)
				if _, inHeader := m.Headers[f.Name]; inHeader {
					if i := strings.Index(v, " "); i >= 0 {
						v = v[i+1:] // scheme prefix removed
					}
				}
				return []string{v}
			}
		}
		return []string{"?"}
	}
	for _, r := range reqs {
		ok := true
		for _, sn := range r.Schemes {
			var sc *spec.Scheme
			for _, x := range d.Schemes {
				if x.Name == sn {
					sc = x
				}
			}
			e.calls = append(e.calls, secCall{scheme: sn, kind: sc.Kind, creds: cred(sc), declared: sc.Scopes, required: r.Scopes})
			if reject[sn] {
				ok = false
				break
			}
		}
		if ok {
			e.invoked = true
			break
		}
	}
	return e
}

func sameStrings(a, b []string) bool {
	if len(a) != len(b) {
		return false
	}
	for i := range a {
		if a[i] != b[i] {
			return false
		}
	}
	return true
}

func judgeSecurity(o *engine.Outcome, w *world, d *spec.Design, s *spec.Service, m *spec.Method, ex *simnet.Exchange, e *secExpect, cerr error, where string) {
	o.Features["c06_"+e.class]++
	if c := classifyFailureAny(d, m, nil, nil, ex); c != "" {
		return
	}
	if len(w.invoked) == 0 && ex.Status >= 400 && ex.Status != 400 {
		// some other refusal (404 from a path value with '/'): not about security
		o.Features["c06_refused_for_other_reasons"]++
		return
	}
	got := w.authLog
	desc := func() string {
		var b []string
		for _, c := range got {
			b = append(b, fmt.Sprintf("%s(%q)", schemeName(c.scheme), c.creds))
		}
		return strings.Join(b, " ")
	}
	want := func() string {
		var b []string
		for _, c := range e.calls {
			b = append(b, fmt.Sprintf("%s(%q)", c.scheme, c.creds))
		}
		return strings.Join(b, " ")
	}
	if len(got) == 0 && len(e.calls) > 0 && len(w.invoked) == 0 && ex.Status == 400 {
		// refused before any callback: a required credential judged missing by the decoder
		var er goahttp.ErrorResponse
		json.Unmarshal(ex.RespBody, &er)
		o.Features["c06_refused_by_decoder_"+er.Name]++
		if er.Name != "missing_field" {
			o.Violate("security_refused", "security_refused:"+er.Name, "%s: refused before any callback with %q (%s)", where, er.Name, er.Message)
		}
		return
	}
	if e.invoked != (len(w.invoked) == 1) {
		o.Violate("security_gate", fmt.Sprintf("security_gate:expected_invoked=%v", e.invoked), "%s: user code ran=%v, the requirements say %v; reject vector %v; callbacks seen: %s; expected: %s", where, len(w.invoked) == 1, e.invoked, w.reject, desc(), want())
		return
	}
	if len(got) != len(e.calls) {
		o.Violate("security_callbacks", "security_callbacks:count", "%s: callbacks seen: %s; expected: %s (reject vector %v)", where, desc(), want(), w.reject)
		return
	}
	for i, c := range e.calls {
		g := got[i]
		if schemeName(g.scheme) != c.scheme || g.kind != c.kind {
			o.Violate("security_callbacks", "security_callbacks:order", "%s: callback %d is %s, expected %s; seen %s expected %s", where, i, schemeName(g.scheme), c.scheme, desc(), want())
			return
		}
		if !sameStrings(g.creds, c.creds) {
			loc := "query"
			for _, f := range d.Resolve(m.Payload.Type).Fields {
				if _, ok := m.Headers[f.Name]; ok && f.Sec != "" && (strings.HasPrefix(f.Sec, "apikey:"+c.scheme) || c.kind == "jwt" && f.Sec == "token" || c.kind == "oauth2" && f.Sec == "accesstoken") {
					loc = "header"
				}
			}
			space := ""
			if len(c.creds) > 0 && strings.Contains(c.creds[0], " ") {
				// the known defect is exactly "everything up to the FIRST space is dropped"; any other loss is something else
				space = ",contains-space-other-loss"
				if w := c.creds[0]; len(g.creds) == 1 && g.creds[0] == w[strings.Index(w, " ")+1:] {
					space = ",contains-space"
				}
			}
			o.Violate("security_credential", fmt.Sprintf("security_credential:%s:in=%s%s", c.kind, loc, space), "%s: %s callback received %q, the client was given %q", where, c.scheme, g.creds, c.creds)
			return
		}
		dec, req := schemeScopes(g.scheme)
		if !sameStrings(dec, c.declared) && !(len(dec) == 0 && len(c.declared) == 0) || !sameStrings(req, c.required) && !(len(req) == 0 && len(c.required) == 0) {
			o.Violate("security_scopes", "security_scopes:"+c.kind, "%s: %s callback received scopes %v required %v, design says %v required %v", where, c.scheme, dec, req, c.declared, c.required)
			return
		}
	}
	if !e.invoked {
		var er goahttp.ErrorResponse
		if err := json.Unmarshal(ex.RespBody, &er); err != nil || er.Name != "unauthorized" || !strings.Contains(er.Message, fmt.Sprintf("(call %d)", len(got))) || cerr == nil {
			o.Violate("security_error", "security_error", "%s: every requirement failed; the client got %v, body %q; want the last callback's error (unauthorized, call %d)", where, cerr, clipS(string(ex.RespBody)), len(got))
		}
	}
}


// ---------------------------------------------------------------------------
// C08: views
// ---------------------------------------------------------------------------

// resultType returns the result type (with views) a method returns, or nil.
func resultType(d *spec.Design, m *spec.Method) *spec.UserType {
	if m.Result == nil {
		return nil
	}
	t := m.Result.Type
	if m.Collection && t.Kind == spec.Array {
		t = t.Elem.Type
	}
	if t.Kind != spec.User {
		return nil
	}
	if u := d.UserType(t.Name); u != nil && u.IsResult {
		return u
	}
	return nil
}

// wireKeys checks that a JSON object carries exactly the attributes of the view.
func wireKeys(d *spec.Design, raw json.RawMessage, u *spec.UserType, view string, sent any, path string) []string {
	var obj map[string]json.RawMessage
	if err := json.Unmarshal(raw, &obj); err != nil {
		return []string{fmt.Sprintf("%s is not a JSON object: %v", path, err)}
	}
	vw := gen.ViewOf(u, view)
	if vw == nil {
		return nil
	}
	in := map[string]bool{}
	for _, f := range vw.Fields {
		in[f] = true
	}
	var errs []string
	for k := range obj {
		if !in[k] {
			errs = append(errs, fmt.Sprintf("%s carries %q which is not part of view %q", path, k, vw.Name))
		}
	}
	so, _ := sent.(map[string]any)
	for _, fn := range vw.Fields {
		f := u.Attr.Type.Field(fn)
		if so[fn] != nil && !isEmptyArr(so[fn]) {
			if _, ok := obj[fn]; !ok {
				errs = append(errs, fmt.Sprintf("%s lacks %q which view %q contains (value %s)", path, fn, vw.Name, gen.Show(so[fn])))
				continue
			}
		}
		if nu, arr := gen.NestedRT(d, f); nu != nil && obj[fn] != nil && so[fn] != nil {
			if arr {
				var raws []json.RawMessage
				ses, _ := so[fn].([]any)
				if err := json.Unmarshal(obj[fn], &raws); err != nil || len(raws) != len(ses) {
					errs = append(errs, fmt.Sprintf("%s.%s is not a JSON array of %d elements", path, fn, len(ses)))
					continue
				}
				for i := range raws {
					errs = append(errs, wireKeys(d, raws[i], nu, vw.NestedView(f), ses[i], fmt.Sprintf("%s.%s[%d]", path, fn, i))...)
				}
			} else {
				errs = append(errs, wireKeys(d, obj[fn], nu, vw.NestedView(f), so[fn], path+"."+fn)...)
			}
		}
	}
	sort.Strings(errs)
	return errs
}

// wireKeysOf applies wireKeys to the body of a result-type method, element by element for a collection.
func wireKeysOf(d *spec.Design, m *spec.Method, raw json.RawMessage, u *spec.UserType, view string, sent any) []string {
	if !m.Collection {
		hs := map[string]string{}
		for a, n := range m.Responses[0].Headers {
			hs[a] = n
		}
		for a, n := range m.Responses[0].Cookies {
			hs[a] = n
		}
		if len(hs) > 0 {
			// attributes this method carries in response headers or cookies are no part of its body: judged against
			// a copy of the type (and of the value) without them; the headers themselves are judged by the caller
			cu := *u
			ca := *u.Attr
			ct := *u.Attr.Type
			ct.Fields = nil
			for _, f := range u.Attr.Type.Fields {
				if _, ok := hs[f.Name]; !ok {
					ct.Fields = append(ct.Fields, f)
				}
			}
			ca.Type, cu.Attr = &ct, &ca
			cu.Views = nil
			for _, v := range u.Views {
				cv := *v
				cv.Fields = nil
				for _, fn := range v.Fields {
					if _, ok := hs[fn]; !ok {
						cv.Fields = append(cv.Fields, fn)
					}
				}
				cu.Views = append(cu.Views, &cv)
			}
			so, _ := sent.(map[string]any)
			cs := map[string]any{}
			for k, v := range so {
				if _, ok := hs[k]; !ok {
					cs[k] = v
				}
			}
			if len(bytes.TrimSpace(raw)) == 0 {
				raw = json.RawMessage("{}")
			}
			return wireKeys(d, raw, &cu, view, cs, "body")
		}
		return wireKeys(d, raw, u, view, sent, "body")
	}
	var raws []json.RawMessage
	ss, _ := sent.([]any)
	if err := json.Unmarshal(raw, &raws); err != nil {
		if len(ss) == 0 && strings.TrimSpace(string(raw)) == "null" {
			return nil
		}
		return []string{fmt.Sprintf("body is not a JSON array: %v", err)}
	}
	if len(raws) != len(ss) {
		return []string{fmt.Sprintf("body carries %d elements, the service returned %d", len(raws), len(ss))}
	}
	var errs []string
	for i := range raws {
		errs = append(errs, wireKeys(d, raws[i], u, view, ss[i], fmt.Sprintf("body[%d]", i))...)
	}
	return errs
}

func judgeView(o *engine.Outcome, w *world, d *spec.Design, s *spec.Service, m *spec.Method, ex *simnet.Exchange, sent, res any, viewName, viewClass string, cerr error, where string) {
	u := resultType(d, m)
	o.Features["c08_view_"+viewClass]++
	if c := classifyFailureAny(d, m, nil, sent, ex); c != "" || (len(w.invoked) == 0) {
		o.Features["c08_request_refused"]++
		return
	}
	rendered := viewName
	if m.FixedView != "" {
		rendered = m.FixedView
	}
	if rendered == "" {
		rendered = "default"
	}
	// with a view fixed in the design both sides know it statically: no label travels
	multi := len(u.Views) > 1 && m.FixedView == ""
	rewritten := strings.HasPrefix(ex.RespFault, "rewrite_header:")
	sig := fmt.Sprintf("views=%d,%s", len(u.Views), viewClass)
	// a result type that nests the SAME result type twice under two different views is a
	// defect class of its own (goa renders both attributes with one of the views)
	sameTypeTwoViews := sameNestedTypeTwoViews(d, u)
	if viewClass == "undefined" {
		// the service named a view the type does not have: anything but a success that
		// exposes attributes is acceptable; what goa does is recorded
		switch {
		case ex.HandlerPanic != nil:
			o.Features["c08_undefined_view_handler_panic"]++
		case cerr != nil:
			o.Features["c08_undefined_view_error"]++
		case m.Collection && (sent == nil || isEmptyArr(sent) || strings.TrimSpace(string(ex.RespBody)) == "[]"):
			o.Features["c08_undefined_view_empty_collection"]++ // no element, so nothing was rendered with the view that does not exist
		default:
			o.Violate("undefined_view_rendered", "undefined_view_rendered", "%s: the service asked for view %q which %s does not define and the client got a success: %s (body %q)", where, viewName, u.Name, gen.Show(gen.FromGo(d, reflect.ValueOf(res), m.Result.Type)), clipS(string(ex.RespBody)))
		}
		return
	}
	if ex.HandlerPanic != nil {
		o.Violate("handler_panic", "handler_panic:view:"+sig, "%s: server panicked rendering view %q: %v\n%s", where, rendered, ex.HandlerPanic, ex.PanicStack)
		return
	}
	// ---- what crossed the wire (before any rewrite: ex.RespHeader is the server's own)
	if want := selectResponse(m, sent).Status; ex.Status != want {
		o.Violate("response_status", "status:view", "%s: status %d, design says %d", where, ex.Status, want)
		return
	}
	hv := ex.RespHeader.Get("Goa-View")
	if multi && hv != rendered {
		o.Violate("view_header", "view_header:"+sig, "%s: rendered view %q but the goa-view header says %q", where, rendered, hv)
	}
	for _, e := range wireKeysOf(d, m, ex.RespBody, u, rendered, sent) {
		if sameTypeTwoViews && underAffected(memoAffected(d, u, rendered), e) {
			o.Violate("view_wire", "view:same-nested-type-under-two-views", "%s: view %q: %s\n  full value %s\n  body %q", where, rendered, e, gen.Show(sent), clipS(string(ex.RespBody)))
			return
		}
		o.Violate("view_wire", "view_wire:"+sig, "%s: view %q: %s\n  full value %s\n  body %q", where, rendered, e, gen.Show(sent), clipS(string(ex.RespBody)))
		break
	}
	for attr, hn := range m.Responses[0].Headers {
		so, _ := sent.(map[string]any)
		inView := false
		if vw := gen.ViewOf(u, rendered); vw != nil {
			for _, fn := range vw.Fields {
				inView = inView || fn == attr
			}
		}
		hv, present := ex.RespHeader[http.CanonicalHeaderKey(hn)]
		o.Features["c08_header_mapped_attribute_checked"]++
		switch {
		case inView && so[attr] != nil && (!present || len(hv) != 1 || !textEq(d.Resolve(u.Attr.Type.Field(attr).Type).Kind, hv[0], so[attr])):
			o.Violate("view_wire", "view_wire:header:"+sig, "%s: view %q contains %q (=%s), which this method carries in header %s: the header is %q", where, rendered, attr, gen.Show(so[attr]), hn, hv)
		case !inView && present && len(hv) > 0 && hv[0] != "":
			o.Violate("view_wire", "view_wire:header-outside-view:"+sig, "%s: view %q does not contain %q, yet its header %s went out as %q", where, rendered, attr, hn, hv)
		}
	}
	for attr, cn := range m.Responses[0].Cookies {
		so, _ := sent.(map[string]any)
		inView := false
		if vw := gen.ViewOf(u, rendered); vw != nil {
			for _, fn := range vw.Fields {
				inView = inView || fn == attr
			}
		}
		got, present := "", false
		for _, c := range (&http.Response{Header: ex.RespHeader}).Cookies() {
			if c.Name == cn {
				got, present = c.Value, true
			}
		}
		o.Features["c08_cookie_mapped_attribute_checked"]++
		switch {
		case inView && so[attr] != nil && (!present || !textEq(spec.String, got, so[attr])):
			o.Violate("view_wire", "view_wire:cookie:"+sig, "%s: view %q contains %q (=%s), which this method carries in cookie %s: Set-Cookie is %q", where, rendered, attr, gen.Show(so[attr]), cn, ex.RespHeader["Set-Cookie"])
		case !inView && present && got != "":
			o.Violate("view_wire", "view_wire:cookie-outside-view:"+sig, "%s: view %q does not contain %q, yet its cookie %s went out as %q", where, rendered, attr, cn, got)
		}
	}
	// ---- what the client rebuilt
	if rewritten {
		label := strings.TrimPrefix(strings.SplitN(ex.RespFault, "=", 2)[1], "")
		o.Features["fault_rewrite_goa_view"]++
		target := gen.ViewOf(u, label)
		if !multi {
			return // a single-view type does not depend on the label
		}
		switch {
		case target == nil || label == "":
			if label == "" {
				target = gen.ViewOf(u, "default")
			}
			if target == nil {
				o.Features["c08_label_undefined"]++
				if cerr == nil {
					o.Violate("undefined_label_accepted", "undefined_label_accepted", "%s: the response was labelled with view %q which %s does not define and the client accepted it: %s", where, label, u.Name, gen.Show(gen.FromGo(d, reflect.ValueOf(res), m.Result.Type)))
				}
				return
			}
			fallthrough
		default:
			o.Features["c08_label_other_defined_view"]++
			if cerr == nil {
				got := gen.FromGo(d, reflect.ValueOf(res), m.Result.Type)
				// the property says nothing about a response relabelled with another DEFINED
				// view (the body then really carries the extra attributes): counted, not judged
				if out := gen.OutsideView(d, got, u, target.Name, ""); len(out) > 0 {
					o.Features["c08_relabelled_extra_attributes_kept"]++
				}
			}
		}
		return
	}
	if cerr != nil && strings.Contains(cerr.Error(), "is missing from") && nestedUnderSeveralViews(d, s, m, u, rendered) {
		o.Violate("view_client_error", "view:nested-type-under-several-views-in-one-service", "%s: rendering view %q failed at the client: %v\n  body %q", where, rendered, cerr, clipS(string(ex.RespBody)))
		return
	}
	if cerr != nil {
		o.Violate("view_client_error", "view_client_error:"+errName(cerr)+":"+sig, "%s: rendering view %q of %s failed at the client: %v\n  full value %s\n  body %q", where, rendered, gen.Show(sent), cerr, gen.Show(sent), clipS(string(ex.RespBody)))
		return
	}
	got := gen.FromGo(d, reflect.ValueOf(res), m.Result.Type)
	elemAttr := &spec.Attr{Type: &spec.Type{Kind: spec.Object, Fields: u.Attr.Type.Fields}}
	want := gen.Expected(d, gen.Project(d, sent, u, rendered), elemAttr)
	gotIn := gen.Project(d, got, u, rendered)
	if m.Collection {
		// element by element
		ss, _ := sent.([]any)
		gs, _ := got.([]any)
		ws, gis := make([]any, len(ss)), make([]any, len(gs))
		for i := range ss {
			ws[i] = gen.Expected(d, gen.Project(d, ss[i], u, rendered), elemAttr)
		}
		for i := range gs {
			gis[i] = gen.Project(d, gs[i], u, rendered)
		}
		want, gotIn = ws, gis
	}
	if diff := gen.Diff(want, gotIn, ""); diff != "" && sameTypeTwoViews && underAffected(memoAffected(d, u, rendered), strings.TrimPrefix(diff, ".")) {
		o.Violate("view_value", "view:same-nested-type-under-two-views", "%s: view %q: %s", where, rendered, diff)
	} else if diff != "" && strings.Contains(diff, ".") && strings.Contains(diff, "got <unset>") && nestedUnderSeveralViews(d, s, m, u, rendered) {
		// the same helper, silently: the attributes it does not copy are optional, so nothing complains
		o.Violate("view_value", "view:nested-type-under-several-views-in-one-service", "%s: view %q: %s", where, rendered, diff)
	} else if diff != "" {
		o.Violate("view_value", "view_value:"+sig, "%s: view %q: %s\n  service returned %s\n  client rebuilt   %s", where, rendered, diff, gen.Show(sent), gen.Show(got))
	}
	out := gen.OutsideView(d, got, u, rendered, "")
	if gs, ok := got.([]any); ok && m.Collection {
		for i, g := range gs {
			out = append(out, gen.OutsideView(d, g, u, rendered, fmt.Sprintf("[%d]", i))...)
		}
	}
	if len(out) > 0 {
		o.Violate("view_leak", "view_leak:"+sig, "%s: view %q: attributes outside the view are set on the client: %v (body %q)", where, rendered, out, clipS(string(ex.RespBody)))
	}
}


// genFrames keeps the frames of generated code from a panic stack.
func genFrames(stack string) string {
	var out []string
	lines := strings.Split(stack, "\n")
	for i, l := range lines {
		if strings.HasPrefix(l, "verifgen/") && i+1 < len(lines) {
			fn := l
			if j := strings.LastIndex(fn, "/"); j >= 0 {
				fn = fn[j+1:]
			}
			if k := strings.Index(fn, "("); k > 0 {
				fn = fn[:k]
			}
			loc := strings.TrimSpace(lines[i+1])
			if j := strings.Index(loc, "/gen/"); j >= 0 {
				loc = loc[j+5:]
			}
			if k := strings.Index(loc, " +0x"); k > 0 {
				loc = loc[:k]
			}
			out = append(out, fn+" "+loc)
		}
	}
	if len(out) > 5 {
		out = out[:5]
	}
	return "  " + strings.Join(out, "\n  ")
}

func stackClass(ex *simnet.Exchange) string {
	fn := "?"
	for _, l := range strings.Split(ex.PanicStack, "\n") {
		if strings.HasPrefix(l, "verifgen/") {
			fn = l
			if j := strings.LastIndex(fn, "/"); j >= 0 {
				fn = fn[j+1:]
			}
			if k := strings.Index(fn, "("); k > 0 {
				fn = fn[:k]
			}
			for _, pre := range []string{"unmarshal", "marshal", "transform", "Validate", "New", "Decode", "Encode", "Build", "Mount"} {
				if k := strings.Index(fn, "."+pre); k >= 0 {
					fn = pre + "*"
					break
				}
			}
			break
		}
	}
	f := "fault-free"
	if ex.ReqFault != "" {
		f = ex.ReqFault
	}
	return f + ":" + fn
}


// ---------------------------------------------------------------------------
// C14: the OpenAPI 3 document against the server, on the same exchange
// ---------------------------------------------------------------------------

func judgeContract(o *engine.Outcome, w *world, d *spec.Design, design string, s *spec.Service, m *spec.Method, ex *simnet.Exchange, mode string, st *gen.Site, payload any, where string) {
	c := loadContract(design)
	if c.err != nil {
		o.Features["c14_document_unusable"]++
		o.Features["c14_doc_error: "+firstLine(c.err.Error())[:min(90, len(firstLine(c.err.Error())))]]++
		if o.Extra == nil {
			o.Extra = map[string]string{}
		}
		o.Extra["document_error"] = c.err.Error()
		return
	}
	if cl := classifyFailureAny(d, m, payload, nil, ex); cl != "" {
		o.Features["c14_skipped_known_defect_class"]++
		return
	}
	if st != nil && st.Rule == "format" {
		o.Features["c14_skipped_format"]++ // formats are only compared where the validator implements them
		return
	}
	if len(gen.Effective(d, s, m)) > 0 {
		o.Features["c14_secured_method"]++
	}
	if obj, ok := payload.(map[string]any); ok && m.Payload != nil {
		for _, f := range d.Resolve(m.Payload.Type).Fields {
			if sv, isStr := obj[f.Name].(string); isStr && isCatchAll(m, f.Name) && (strings.HasPrefix(sv, "/") || strings.HasSuffix(sv, "/") || strings.Contains(sv, "//")) {
				// OpenAPI has no rest-of-path parameter: goa documents {*name} as an ordinary path parameter, and
				// the validator's router hands it an empty value when the rest of the path has empty segments
				o.Features["c14_skipped_catch_all_with_empty_segment"]++
				return
			}
		}
	}
	docErr, route, params, req, routed := c.docVerdictRequest(ex)
	if docErr != nil && strings.Contains(docErr.Error(), "value out of range") {
		o.Features["c14_skipped_validator_integer_range"]++ // the validator parses integers as int64: uint64 values above that are its limit, not goa's
		return
	}
	if !routed {
		o.Features["c14_operation_not_found_in_document"]++
		return
	}
	if docErr != nil && strings.Contains(docErr.Error(), "is not one of the allowed values") && !strings.Contains(docErr.Error(), "request body") {
		o.Features["c14_skipped_validator_param_enum"]++ // the validator compares a parsed int64 parameter with float64 enum values
		return
	}
	modelValid := mode != "invalid-payload"
	serverAccepted := len(w.invoked) == 1
	o.Features["c14_requests_judged"]++
	if serverAccepted != modelValid {
		o.Features["c14_server_disagrees_with_model"]++ // C04's subject, not reported twice
	}
	top, loc, kind := "", gen.LocBody, ""
	if st != nil {
		top = strings.SplitN(strings.SplitN(strings.TrimPrefix(st.Path, "."), ".", 2)[0], "[", 2)[0]
		loc = locOf(m, top)
		if f := d.Resolve(m.Payload.Type).Field(top); f != nil {
			kind = d.Resolve(f.Type).Kind
		}
	}
	// header arrays: goa sends one field line per element, the validator expects the
	// comma-separated "simple" style and splits values on commas: not comparable
	headerArray := false
	if m.Payload != nil {
		for a := range m.Headers {
			if f := d.Resolve(m.Payload.Type).Field(a); f != nil && d.Resolve(f.Type).Kind == spec.Array {
				headerArray = true
			}
		}
	}
	if headerArray && (loc == gen.LocHeader || (docErr != nil && strings.Contains(docErr.Error(), "in header"))) {
		o.Features["c14_skipped_header_array_style"]++
		docErr, modelValid = nil, true
	}
	switch {
	case docErr != nil && modelValid && strings.Contains(docErr.Error(), "doesn't match the format \"int32\"") || docErr != nil && modelValid && strings.Contains(docErr.Error(), "doesn't match the format \"int64\""):
		o.Violate("contract_forbids_valid_request", "doc-rejects-valid:unsigned-documented-as-signed-format", "%s: the server accepts (and the design allows) this request but openapi3.json forbids it: %v\n  payload %s", where, firstLine(docErr.Error()), gen.Show(payload))
	case docErr == nil && !modelValid && (kind == spec.Map || throughMap(d, m.Payload, st.Path)):
		o.Violate("contract_promises_invalid_request", "doc-accepts-invalid:map-element-constraint", "%s: the request violates %s at %s (inside a map) but conforms to openapi3.json\n  payload %s", where, st.Rule, st.Path, gen.Show(payload))
	case docErr != nil && modelValid:
		o.Violate("contract_forbids_valid_request", "doc-rejects-valid:"+errClass(docErr), "%s: the server accepts (and the design allows) this request but openapi3.json forbids it: %v\n  payload %s\n  request %s", where, firstLine(docErr.Error()), gen.Show(payload), firstLineOf(ex.ReqWire))
	case docErr == nil && !modelValid:
		o.Violate("contract_promises_invalid_request", fmt.Sprintf("doc-accepts-invalid:%s:loc=%s,type=%s", st.Rule, loc, kind), "%s: the request violates %s at %s (server accepted=%v) but conforms to openapi3.json\n  payload %s\n  request %s", where, st.Rule, st.Path, serverAccepted, gen.Show(payload), firstLineOf(ex.ReqWire))
	}
	// responses the server produced must conform to what the document promises for their status
	if ex.Status > 0 && (serverAccepted || mode == "declared") {
		o.Features["c14_responses_judged"]++
		// OpenAPI 3 cannot describe response cookies; goa documents them as a Set-Cookie
		// header carrying the attribute's schema, which no validator can match against
		// "name=value": left out of the comparison
		hdr := ex.RespHeader.Clone()
		hdr.Del("Set-Cookie")
		ex2 := *ex
		ex2.RespHeader = hdr
		rerr := c.docVerdictResponse(&ex2, route, params, req)
		if rerr != nil && strings.Contains(rerr.Error(), "value out of range") {
			rerr = nil
		}
		if rerr != nil && strings.Contains(rerr.Error(), "response header") && strings.Contains(rerr.Error(), "is not one of the allowed values") {
			o.Features["c14_skipped_validator_param_enum"]++ // same int64-vs-float64 enum comparison as for request parameters
			rerr = nil
		}
		if rerr != nil && strings.Contains(rerr.Error(), "Content-Type has unexpected value") && ex.Status >= 400 {
			// judged as its own class; the body is then checked under the documented media type
			o.Violate("contract_response", "response:declared-error:media-type", "%s: the %d error response is sent as %q but openapi3.json documents another media type: %v", where, ex.Status, ex.RespHeader.Get("Content-Type"), firstLine(rerr.Error()))
			if resp := route.Operation.Responses.Status(ex.Status); resp != nil && resp.Value != nil {
				for ct := range resp.Value.Content {
					hdr.Set("Content-Type", ct)
					break
				}
				rerr = c.docVerdictResponse(&ex2, route, params, req)
			}
		}
		// (the recorded finding is about views chosen at run time: one documented schema cannot fit them all. A view
		// FIXED in the design is known when the document is written, and the document describes exactly that projection)
		if u := resultType(d, m); rerr != nil && u != nil && m.FixedView == "" && strings.Contains(rerr.Error(), "is missing") && ex.Status < 400 {
			o.Violate("contract_response", "response:view-omits-required-attribute", "%s: the %d response (view %q) does not conform to openapi3.json: %v\n  body %q", where, ex.Status, ex.RespHeader.Get("Goa-View"), firstLine(rerr.Error()), clipS(string(ex.RespBody)))
			rerr = nil
		}
		if rerr != nil && (strings.Contains(rerr.Error(), "doesn't match the format \"int32\"") || strings.Contains(rerr.Error(), "doesn't match the format \"int64\"")) {
			o.Violate("contract_response", "response:unsigned-documented-as-signed-format", "%s: the %d response does not conform to openapi3.json: %v\n  body %q", where, ex.Status, firstLine(rerr.Error()), clipS(string(ex.RespBody)))
			rerr = nil
		}
		if rerr != nil && ex.Status >= 400 {
			// one status code documents one schema: errors of different types mapped to the same status
			kinds := map[string]bool{}
			for _, e := range append(append([]*spec.ErrorDef{}, m.Errors...), s.Errors...) {
				if e.Status == ex.Status {
					k := "ErrorResult"
					if e.Type != nil {
						k = e.Type.Kind + ":" + e.Type.Name
					}
					// (the same type with another response mapping - an attribute in a header here, in the body
					// there - is another body layout as far as the document is concerned)
					hk := make([]string, 0, len(e.Headers))
					for a := range e.Headers {
						hk = append(hk, a)
					}
					sort.Strings(hk)
					if e.EmptyBody {
						hk = append(hk, "(no body: everything in goa-attribute-* headers)")
					}
					kinds[k+"|"+strings.Join(hk, ",")] = true
				}
			}
			if len(kinds) > 1 {
				o.Violate("contract_response", "response:declared-error:several-error-types-on-one-status", "%s: errors of %d different types are mapped to status %d and openapi3.json documents one of them; this %d response does not conform: %v\n  headers %v\n  body %q", where, len(kinds), ex.Status, ex.Status, firstLine(rerr.Error()), ex.RespHeader, clipS(string(ex.RespBody)))
				rerr = nil
			}
		}
		if rerr != nil {
			cls := "success"
			if ex.Status >= 400 {
				cls = "declared-error"
			}
			o.Violate("contract_response", "response:"+cls+":"+errClass(rerr), "%s: the %d response does not conform to openapi3.json: %v\n  headers %v\n  body %q", where, ex.Status, firstLine(rerr.Error()), ex.RespHeader, clipS(string(ex.RespBody)))
		}
	}
}

func firstLine(s string) string {
	if i := strings.IndexByte(s, '\n'); i >= 0 {
		s = s[:i]
	}
	if len(s) > 300 {
		s = s[:300]
	}
	return s
}


// selectResponse applies the design's rule: the first response whose tag
// attribute carries the tag value, else the untagged one.
func selectResponse(m *spec.Method, result any) *spec.Response {
	obj, _ := result.(map[string]any)
	var untagged *spec.Response
	for _, r := range m.Responses {
		if r.TagAttr == "" {
			if untagged == nil {
				untagged = r
			}
			continue
		}
		if v, ok := obj[r.TagAttr].(string); ok && v == r.TagVal {
			return r
		}
	}
	if untagged != nil {
		return untagged
	}
	return m.Responses[len(m.Responses)-1]
}


// sameNestedTypeTwoViews reports whether rendering some view of x runs into the
// recorded projection defect (known_findings: view:same-nested-type-under-two-views).
// It replays what expr.projectRecursive does with its memo: a nested result-type
// attribute is LOOKED UP under (its type, the enclosing view) but STORED under
// (its type, its own view). A later attribute of the same nested type is therefore
// handed an earlier attribute's projection exactly when that earlier attribute's own
// view is named like the later one's enclosing view - and that is wrong when the
// later attribute asks for another view. Any other way for two attributes of one
// nested type to end up with each other's view is NOT this finding.
func sameNestedTypeTwoViews(d *spec.Design, x *spec.UserType) bool {
	if x == nil {
		return false
	}
	for _, top := range x.Views {
		seen := map[string]bool{}
		if memoHit(d, x, top.Name, seen, 0) {
			return true
		}
	}
	return false
}

// nestedUnderSeveralViews reports whether rendering u with view reaches a nested result type that the SAME
// service also renders, somewhere, with another view (recorded defect: the generated client has one
// unmarshal helper per nested type NAME, built for whichever view was generated first).
func nestedUnderSeveralViews(d *spec.Design, s *spec.Service, cur *spec.Method, u *spec.UserType, view string) bool {
	used := map[string]map[string]bool{}
	var walk func(u *spec.UserType, view string, depth int, hit func(nu *spec.UserType))
	walk = func(u *spec.UserType, view string, depth int, hit func(nu *spec.UserType)) {
		vw := gen.ViewOf(u, view)
		if vw == nil || depth > 8 {
			return
		}
		for _, name := range vw.Fields {
			f := u.Attr.Type.Field(name)
			nu, _ := gen.NestedRT(d, f)
			if nu == nil {
				continue
			}
			own := vw.NestedView(f)
			if own == "" {
				own = "default"
			}
			if used[nu.Name] == nil {
				used[nu.Name] = map[string]bool{}
			}
			used[nu.Name][own] = true
			if hit != nil {
				hit(nu)
			}
			walk(nu, own, depth+1, hit)
		}
	}
	// (the helpers only disagree when some method of the service fixes its view in the design: such a method's
	// body types are projected, and a nested type projected with its default view keeps the plain type name that
	// the full body types of the other methods use)
	// ... and the helper that is generated FIRST wins: the methods that lose are the ones declared after that
	// fixed-view method.
	fixedReaches := map[string]bool{}
	before := true
	for _, m := range s.Methods {
		if m == cur {
			before = false
		}
		if ru := resultType(d, m); ru != nil {
			for _, v := range ru.Views {
				walk(ru, v.Name, 0, nil)
			}
			if m.FixedView != "" && before {
				walk(ru, m.FixedView, 0, func(nu *spec.UserType) { fixedReaches[nu.Name] = true })
			}
		}
	}
	several := false
	walk(u, view, 0, func(nu *spec.UserType) {
		if len(used[nu.Name]) > 1 && fixedReaches[nu.Name] {
			several = true
		}
	})
	return several
}

// memoAffected lists the attribute paths (a.b.c from the result's top level) that the recorded projection
// defect misrenders when the result type u is rendered with view: the same replay of the memo as memoHit,
// for one top view, keeping WHERE the wrong projection lands.
func memoAffected(d *spec.Design, u *spec.UserType, view string) []string {
	seen := map[string]bool{}
	inner := map[string][]string{} // (type, view) -> the paths, relative to it, that its stored projection misrenders
	var walk func(u *spec.UserType, view string, depth int) []string
	walk = func(u *spec.UserType, view string, depth int) []string {
		var out []string
		vw := gen.ViewOf(u, view)
		if vw == nil || depth > 8 {
			return nil
		}
		for _, name := range vw.Fields {
			f := u.Attr.Type.Field(name)
			nu, _ := gen.NestedRT(d, f)
			if nu == nil {
				continue
			}
			own := vw.NestedView(f)
			if own == "" {
				own = "default"
			}
			if seen[nu.Name+"::"+view] {
				if own != view {
					out = append(out, name)
				} else {
					// the stored projection is the right one, and it comes with whatever it misrenders inside
					for _, rel := range inner[nu.Name+"::"+own] {
						out = append(out, name+"."+rel)
					}
				}
				continue
			}
			seen[nu.Name+"::"+own] = true
			sub := walk(nu, own, depth+1)
			inner[nu.Name+"::"+own] = sub
			for _, rel := range sub {
				out = append(out, name+"."+rel)
			}
		}
		return out
	}
	return walk(u, view, 0)
}

// underAffected reports whether a complaint about path (with or without a leading "body.") concerns an
// attribute the recorded projection defect misrenders.
func underAffected(affected []string, complaint string) bool {
	c := strings.TrimPrefix(complaint, "body.")
	if strings.HasPrefix(c, "body[") || strings.HasPrefix(c, "[") {
		if i := strings.Index(c, "]."); i >= 0 {
			c = c[i+2:] // an element of a collection
		}
	}
	for _, a := range affected {
		if c == a || strings.HasPrefix(c, a+".") || strings.HasPrefix(c, a+" ") || strings.HasPrefix(c, a+"[") || strings.HasPrefix(c, a+":") {
			return true
		}
	}
	return false
}

func memoHit(d *spec.Design, u *spec.UserType, view string, seen map[string]bool, depth int) bool {
	vw := gen.ViewOf(u, view)
	if vw == nil || depth > 8 {
		return false
	}
	for _, name := range vw.Fields {
		f := u.Attr.Type.Field(name)
		nu, _ := gen.NestedRT(d, f)
		if nu == nil {
			continue
		}
		own := vw.NestedView(f)
		if own == "" {
			own = "default"
		}
		if seen[nu.Name+"::"+view] {
			if own != view {
				return true // handed the projection stored by an earlier attribute whose own view is `view`
			}
			continue
		}
		seen[nu.Name+"::"+own] = true
		if memoHit(d, nu, own, seen, depth+1) {
			return true
		}
	}
	return false
}

// panicCause gives a handler panic the signature of its structural cause when
// that cause is recognisable from the design and the values, else of the
// panicking function class.
// responseCollectionFrame: the constructor of a collection response body (New<Type>Response<View>Collection; the
// view name is left out for the default view).
var responseCollectionFrame = regexp.MustCompile(`New\w+Response\w*Collection`)

func panicCause(d *spec.Design, m *spec.Method, result any, ex *simnet.Exchange) string {
	if (strings.Contains(ex.PanicStack, "ResponseBody") || responseCollectionFrame.MatchString(ex.PanicStack)) && sameNestedTypeTwoViews(d, resultType(d, m)) {
		return "view:same-nested-type-under-two-views"
	}
	if m.Result != nil && strings.Contains(ex.PanicStack, "Encode") {
		if r := selectResponse(m, result); r.TagAttr != "" {
			obj, _ := result.(map[string]any)
			rt := d.Resolve(m.Result.Type)
			for a := range r.Headers {
				if f := rt.Field(a); f != nil && !f.Required && !f.HasDef && obj[a] == nil {
					return "tagged-response-dereferences-unset-optional-header"
				}
			}
		}
	}
	return "handler_panic:" + stackClass(ex)
}


// ---------------------------------------------------------------------------
// drop_element: a designed element removed from the wire
// ---------------------------------------------------------------------------

// droppedAttr maps a wire element back to the payload attribute it carries
// (nil: not a designed, non-credential element of this method).
func droppedAttr(d *spec.Design, m *spec.Method, loc, wire string) *spec.Attr {
	if m.Payload == nil {
		return nil
	}
	pt := d.Resolve(m.Payload.Type)
	if pt.Kind != spec.Object {
		return nil
	}
	find := func(tbl map[string]string, canon bool) *spec.Attr {
		for a, wn := range tbl {
			if wn == "" {
				wn = a
			}
			if wn == wire || canon && http.CanonicalHeaderKey(wn) == http.CanonicalHeaderKey(wire) {
				if f := pt.Field(a); f != nil && f.Sec == "" {
					return f
				}
			}
		}
		return nil
	}
	switch loc {
	case "query":
		return find(m.Params, false)
	case "header":
		if http.CanonicalHeaderKey(wire) == "Authorization" {
			return nil
		}
		return find(m.Headers, true)
	case "cookie":
		return find(m.Cookies, false)
	case "body":
		for _, f := range bodyAttrs(d, m, m.Payload, m.Headers, m.Cookies, m.Params, m.Routes[0].Path) {
			if f.Name == wire && f.Sec == "" {
				return f
			}
		}
	}
	return nil
}

func judgeDropped(o *engine.Outcome, w *world, d *spec.Design, design string, s *spec.Service, m *spec.Method, ex *simnet.Exchange, payload any, prop, where string) {
	f := droppedAttr(d, m, ex.DroppedLoc, ex.DroppedName)
	if f == nil {
		o.Violate("harness_drop", "harness_drop", "%s: dropped %s %q which maps to no attribute", where, ex.DroppedLoc, ex.DroppedName)
		return
	}
	kind := d.Resolve(f.Type).Kind
	cls := fmt.Sprintf("loc=%s,type=%s,required=%v,default=%v", ex.DroppedLoc, kind, f.Required, f.HasDef)
	o.Features["fault_drop_element_"+ex.DroppedLoc]++
	p2, _ := gen.DeepCopy(payload).(map[string]any)
	delete(p2, f.Name)
	if c := classifyFailureAny(d, m, p2, nil, ex); c != "" {
		o.Features["known_defect_class_in_the_way"]++
		return
	}
	valid := !f.Required && len(gen.Validate(d, p2, m.Payload, "")) == 0
	if gen.MustBeSet(d, f) && !f.Required {
		o.Features["known_defect_class_in_the_way"]++ // optional collection with MinLength, now unset: known finding
		return
	}
	if prop == "C14" {
		if c := loadContract(design); c.err == nil {
			docErr, _, _, _, routed := c.docVerdictRequest(ex)
			// the document's opinion of the request as the client built it: when it already
			// rejects that one the disagreement is not about the missing element (the ordinary
			// request oracle reports it)
			full := *ex
			full.ReqWire = ex.ReqWireSent
			if fullErr, _, _, _, ok := c.docVerdictRequest(&full); !ok || fullErr != nil {
				o.Features["c14_drop_unjudged_document_rejects_full_request"]++
				return
			}
			if routed && (docErr == nil) != valid && !(docErr != nil && strings.Contains(docErr.Error(), "security")) {
				dir := "doc-accepts-request-missing-required"
				if docErr != nil {
					dir = "doc-rejects-request-missing-optional"
				}
				o.Violate("contract_missing_element", dir+":"+fmt.Sprintf("loc=%s,required=%v,default=%v", ex.DroppedLoc, f.Required, f.HasDef), "%s: request without %s %q (attribute %s): the design says valid=%v, openapi3.json says %v", where, ex.DroppedLoc, ex.DroppedName, f.Name, valid, errClass(docErr))
			}
			o.Features["c14_requests_judged"]++
		}
		return
	}
	if valid {
		o.Features["dropped_optional"]++
		if len(w.invoked) != 1 {
			o.Violate("optional_element_missing_refused", "missing-optional-refused:"+cls, "%s: the request lacks the OPTIONAL %s %q (attribute %s) and was not served: status %d body %q", where, ex.DroppedLoc, ex.DroppedName, f.Name, ex.Status, clipS(string(ex.RespBody)))
			return
		}
		want := expectedPayload(d, m, p2)
		if f.HasDef {
			o.Features["default_injected_checked"]++
		}
		if diff := gen.Diff(want, w.invoked[0].got, ""); diff != "" {
			if dc := diffClassP(d, m, diff, p2); dc == "query-map-key-contains-closing-bracket" {
				cls = dc
			}
			o.Violate("payload_delivery", "delivery-after-drop:"+cls, "%s: request without %s %q: %s\n  expected %s\n  received %s", where, ex.DroppedLoc, ex.DroppedName, diff, gen.Show(want), gen.Show(w.invoked[0].got))
		}
		return
	}
	o.Features["dropped_required"]++
	if len(w.invoked) != 0 {
		rc := reachedClass(d, m, gen.Violation{Path: "." + f.Name, Rule: "required"})
		if rc != "validation-error-dropped-by-required-cookie" {
			rc = "missing-required:" + cls
		}
		o.Violate("invalid_payload_reached_service", "reached:"+rc, "%s: the request lacks the REQUIRED %s %q (attribute %s) and the service method ran on %s", where, ex.DroppedLoc, ex.DroppedName, f.Name, gen.Show(w.invoked[0].got))
		return
	}
	var er goahttp.ErrorResponse
	if ex.Status < 400 || ex.Status > 499 || json.Unmarshal(ex.RespBody, &er) != nil || !contains(ruleErrorNames["required"], er.Name) {
		o.Violate("invalid_error_name", "missing-required-answer:"+cls, "%s: request without the required %s %q answered with status %d body %q", where, ex.DroppedLoc, ex.DroppedName, ex.Status, clipS(string(ex.RespBody)))
	}
}


// throughMap reports whether a violation path (".a.b[3].c") passes through a map.
func throughMap(d *spec.Design, a *spec.Attr, path string) bool {
	t := d.Resolve(a.Type)
	for path != "" {
		switch {
		case path[0] == '.':
			path = path[1:]
			i := strings.IndexAny(path, ".[")
			if i < 0 {
				i = len(path)
			}
			if t.Kind == spec.Map && path[:i] == "key" {
				return true // a constraint on the map's keys
			}
			if t.Kind != spec.Object {
				return false
			}
			f := t.Field(path[:i])
			if f == nil {
				return false
			}
			t, path = d.Resolve(f.Type), path[i:]
		case path[0] == '[':
			i := strings.IndexByte(path, ']')
			if i < 0 {
				return false
			}
			switch t.Kind {
			case spec.Map:
				return true
			case spec.Array:
				t = d.Resolve(t.Elem.Type)
			default:
				return false
			}
			path = path[i+1:]
		default:
			return false
		}
	}
	return t.Kind == spec.Map
}


// ---------------------------------------------------------------------------
// declared errors with a designed type (string, or an object user type)
// ---------------------------------------------------------------------------

func customErrorValue(t *verifsim.Tape, d *spec.Design, sh *gen.ServiceHandle, e *spec.ErrorDef) (error, any, error) {
	if e.Type.Kind == spec.String {
		rt := sh.TypeByName(e.Name)
		if rt == nil || rt.Kind() != reflect.String {
			return nil, nil, fmt.Errorf("no generated string type for it")
		}
		model := gen.GenValid(t, d, &spec.Attr{Type: e.Type}, gen.GenOpts{Loc: gen.LocBody, NonEmpty: true})
		rv := reflect.New(rt).Elem()
		rv.SetString(model.(string))
		ev, ok := rv.Interface().(error)
		if !ok {
			return nil, nil, fmt.Errorf("generated type %s is not an error", rt)
		}
		return ev, model, nil
	}
	u := d.UserType(e.Type.Name)
	rt := sh.TypeByName(e.Type.Name)
	if u == nil || rt == nil {
		return nil, nil, fmt.Errorf("no generated type %s", e.Type.Name)
	}
	model, _ := gen.GenValid(t, d, u.Attr, gen.GenOpts{Loc: gen.LocBody}).(map[string]any)
	if e.NameField != "" {
		model[e.NameField] = e.Name
	}
	for a := range e.Headers {
		if f := u.Attr.Type.Field(a); f != nil && model[a] != nil {
			model[a] = gen.GenValid(t, d, f, gen.GenOpts{Loc: gen.LocHeader, NonEmpty: true, AvoidZero: f.HasDef && !f.Required})
		}
	}
	rv, err := gen.ToGo(d, model, e.Type, reflect.PointerTo(rt))
	if err != nil {
		return nil, nil, err
	}
	ev, ok := rv.Interface().(error)
	if !ok {
		return nil, nil, fmt.Errorf("generated type %s is not an error", rv.Type())
	}
	return ev, model, nil
}

func judgeCustomError(o *engine.Outcome, w *world, d *spec.Design, s *spec.Service, m *spec.Method, ex *simnet.Exchange, mode string, want *spec.ErrorDef, model any, cerr error, where, sig string) {
	cls := "string"
	if want.Type.Kind == spec.User {
		cls = "object"
		if want.NameField != "" {
			cls += "+name"
		}
		if len(want.Headers) > 0 {
			cls += "+header"
		}
	}
	if len(w.invoked) != 1 {
		o.Violate("invocation_count", "invocations:"+sig, "%s: service invoked %d times", where, len(w.invoked))
		return
	}
	if cerr == nil {
		o.Violate("error_lost", "error_lost:"+mode+":custom-"+cls, "%s: the service returned the declared error %q (%s) but the client saw success (status %d)", where, want.Name, gen.Show(model), ex.Status)
		return
	}
	o.Features["c05_declared_custom_"+cls]++
	if ex.Status != want.Status {
		o.Violate("error_status", "error_status:"+mode+":custom-"+cls, "%s: declared error %q went out with status %d, design says %d", where, want.Name, ex.Status, want.Status)
	}
	if h := ex.RespHeader.Get("goa-error"); h != want.Name {
		o.Violate("error_header", "error_header:custom-"+cls, "%s: declared error %q went out with goa-error %q", where, want.Name, h)
	}
	if n := errName(cerr); n != want.Name {
		o.Violate("error_name", "error_name:"+mode+":custom-"+cls, "%s: declared error %q (%s) reached the client as %q (%v); status %d body %q", where, want.Name, gen.Show(model), n, cerr, ex.Status, clipS(string(ex.RespBody)))
		return
	}
	// the client's error value equals what the service returned (defaults filled in)
	var got any
	cv := reflect.ValueOf(cerr)
	for cv.Kind() == reflect.Interface {
		cv = cv.Elem()
	}
	if want.Type.Kind == spec.String {
		for cv.Kind() == reflect.Ptr && !cv.IsNil() {
			cv = cv.Elem()
		}
		if cv.Kind() != reflect.String {
			o.Violate("error_fields", "error_type:custom-"+cls, "%s: declared error %q reached the client as a %T", where, want.Name, cerr)
			return
		}
		got = cv.String()
	} else {
		got = gen.FromGo(d, cv, want.Type)
	}
	exp := gen.Expected(d, model, &spec.Attr{Type: want.Type})
	if diff := gen.Diff(exp, got, ""); diff != "" {
		o.Violate("error_fields", "error_fields:"+mode+":custom-"+cls, "%s: declared error %q changed in transit: %s\n  returned by service %s\n  seen by client      %s\n  status %d headers %v body %q", where, want.Name, diff, gen.Show(exp), gen.Show(got), ex.Status, ex.RespHeader, clipS(string(ex.RespBody)))
	}
	// placement: attributes mapped to headers travel there and not in the body
	var body map[string]json.RawMessage
	if want.Type.Kind == spec.User {
		if err := json.Unmarshal(ex.RespBody, &body); err != nil {
			o.Violate("error_body_malformed", "error_body_malformed:custom-"+cls, "%s: error response body %q does not parse (Content-Type %q)", where, clipS(string(ex.RespBody)), ex.RespHeader.Get("Content-Type"))
			return
		}
		mo, _ := exp.(map[string]any)
		for a, h := range want.Headers {
			if _, in := body[a]; in {
				o.Violate("error_placement", "error_placement:header-attr-in-body", "%s: attribute %q of error %q is designed to travel in header %s but is in the body %q", where, a, want.Name, h, clipS(string(ex.RespBody)))
			}
			if mo[a] != nil && ex.RespHeader.Get(h) == "" {
				o.Violate("error_placement", "error_placement:header-missing", "%s: attribute %q of error %q (value %s) is designed to travel in header %s, which is absent", where, a, want.Name, gen.Show(mo[a]), h)
			}
		}
	}
}


// deliverySig keeps structural known-finding classes free of the per-exchange suffix.
func deliverySig(cls, sig string) string {
	if cls == "query-map-key-contains-closing-bracket" {
		return cls
	}
	return cls + ":" + sig
}
