package genlib

import (
	"context"
	"crypto/sha256"
	"encoding/hex"
	"fmt"
	"net/http"
	"reflect"
	"strings"

	goa "goa.design/goa/v3/pkg"
	"goa.design/goa/v3/verifsim"
	"verif/sim/engine"
	"verif/sim/gen"
	"verif/sim/simnet"
	"verif/sim/spec"
)

// C20 (generated half): 2-16 (thorough: up to 64) client tasks issue mixed
// valid / invalid / error-provoking requests through SimNet against ONE
// mounted generated server, under the gated scheduler and the race detector.
// Echo oracle: every response is the function of its own request.

func init() {
	engine.Register("C20", runConcurrent)
	// goa's pattern cache is process-wide; the library of patterns designs use is cached up
	// front so that a run's schedule does not depend on which runs the process hosted before
	for _, p := range gen.DesignPatterns() {
		_ = goa.ValidatePattern("warm", "", p)
	}
}

type cexchange struct {
	svc    *spec.Service
	m      *spec.Method
	mode   string
	payload, result any
	scriptErr error
	wantErr   *spec.ErrorDef
	goPayload, goResult any
	// observed
	invoked  []invocation
	res      any
	cerr     error
	cpanic   any
	ex       *simnet.Exchange
	unhandled []error
}

type ctask struct {
	xs  []*cexchange
	cur *cexchange
}

func runConcurrent(t *verifsim.Tape, cfg engine.Config) *engine.Outcome {
	o := &engine.Outcome{Features: map[string]int{}}
	h := sha256.New()
	designs := gen.Designs()
	if len(designs) == 0 {
		o.Violate("harness_panic", "harness_panic", "no design linked")
		return o
	}
	name := designs[t.Draw("design", len(designs))]
	d, err := loadDesign(name)
	if err != nil {
		o.Violate("harness_panic", "harness_panic", "spec of %s: %v", name, err)
		return o
	}
	sim := verifsim.NewSim(t)
	sim.Strategy = verifsim.Strategy(t.Draw("strategy", 4))
	sim.KeepLog = cfg.Verbose
	// every range over a map in goa and in the generated code iterates in an order drawn from the tape: left to
	// the Go runtime, the order in which a task validates the entries of a map (hence where its lock operations
	// fall) differs from one execution of the same tape to the next
	sim.MapMode = verifsim.MapSeeded
	taskOf := func() *ctask {
		if tk := verifsim.CurTask(); tk != nil {
			if ct, ok := tk.Local.(*ctask); ok {
				return ct
			}
		}
		return nil
	}
	handler := func(ctx context.Context, svc, method string, payload any) (any, string, error) {
		ct := taskOf()
		if ct == nil || ct.cur == nil {
			return nil, "", fmt.Errorf("harness: request served outside a task")
		}
		x := ct.cur
		var got any
		if x.m.Payload != nil && payload != nil {
			got = gen.FromGo(d, reflect.ValueOf(payload), x.m.Payload.Type)
		}
		x.invoked = append(x.invoked, invocation{method, got})
		return x.goResult, "", x.scriptErr
	}
	auth := func(ctx context.Context, svc, kind string, scheme any, creds []string) (context.Context, error) {
		return ctx, nil
	}
	errh := func(ctx context.Context, w http.ResponseWriter, err error) {
		if ct := taskOf(); ct != nil && ct.cur != nil {
			ct.cur.unhandled = append(ct.cur.unhandled, err)
		}
	}
	ncfg := simnet.Config{Yields: true, Chunking: true, ForceChunked: 200, HeaderNoise: 200, Delay: 150, DoubleClose: 150}
	sys, err := gen.Assemble(name, t, ncfg, handler, auth, errh)
	if err != nil {
		o.Violate("harness_assemble", "harness_assemble", "%v", err)
		return o
	}
	nTasks := 2 + t.Pick("tasks", 4, 4, 3, 3, 2, 2, 1, 1, 1, 1, 1, 1, 1, 1, 1)
	if cfg.Tier == "thorough" && t.Draw("many", 6) == 0 {
		nTasks = 17 + t.Draw("tasks64", 48)
	}
	maxEx := 3
	if cfg.Tier == "thorough" {
		maxEx = 8
	}
	tasks := make([]*ctask, nTasks)
	total := 0
	for i := range tasks {
		ct := &ctask{}
		n := 1 + t.Draw("nex", maxEx)
		for k := 0; k < n; k++ {
			s, m := pickMethod(t, d)
			sh := sys.Handles[s.Name]
			mh := sh.Method(m.Name)
			x := &cexchange{svc: s, m: m, mode: "valid"}
			x.payload = genPayload(t, d, m)
			x.result = genResult(t, d, m, m.Responses[len(m.Responses)-1])
			switch t.Draw("c20-mode", 6) {
			case 0:
				if m.Payload != nil {
					cp := gen.DeepCopy(x.payload)
					sites := gen.Sites(d, cp, m.Payload, "", func(nv any) { cp = nv })
					if len(sites) > 0 {
						st := sites[t.Draw("site", len(sites))]
						top := strings.SplitN(strings.SplitN(strings.TrimPrefix(st.Path, "."), ".", 2)[0], "[", 2)[0]
						if st.Break(t, d, locOf(m, top)) {
							if vs := gen.Validate(d, cp, m.Payload, ""); len(vs) == 1 && vs[0].Rule != "format" {
								x.payload, x.mode = cp, "invalid"
							}
						}
					}
				}
			case 1:
				if len(m.Errors) > 0 {
					x.wantErr = m.Errors[t.Draw("which-error", len(m.Errors))]
					if mk := sh.Maker(x.wantErr.Name); mk != nil {
						x.scriptErr = mk(fmt.Errorf("declared failure of task %d call %d", i, k))
						x.mode = "declared"
					}
				}
			case 2:
				x.scriptErr = fmt.Errorf("plain failure of task %d call %d", i, k)
				x.mode = "plain"
			}
			if m.Payload != nil && mh.Payload != nil {
				pv, err := gen.ToGo(d, x.payload, m.Payload.Type, mh.Payload)
				if err != nil {
					o.Violate("harness_values", "harness_values", "payload: %v", err)
					return o
				}
				x.goPayload = pv.Interface()
			}
			if m.Result != nil && mh.Result != nil && x.scriptErr == nil {
				rv, err := gen.ToGo(d, x.result, m.Result.Type, mh.Result)
				if err != nil {
					o.Violate("harness_values", "harness_values", "result: %v", err)
					return o
				}
				x.goResult = rv.Interface()
			}
			ct.xs = append(ct.xs, x)
		}
		total += n
		tasks[i] = ct
		// endpoints are built once per task up front (client construction is not the subject)
		eps := make([]goa.Endpoint, len(ct.xs))
		for k, x := range ct.xs {
			ep, err := sys.Endpoint(x.svc.Name, x.m.Name)
			if err != nil {
				o.Violate("harness_glue", "harness_glue", "%v", err)
				return o
			}
			eps[k] = ep
		}
		sim.Spawn(fmt.Sprintf("client%d", i), ct, func() {
			for k, x := range ct.xs {
				ct.cur = x
				x.ex = &simnet.Exchange{}
				ctx := simnet.WithExchange(context.Background(), x.ex)
				func() {
					defer func() {
						if p := recover(); p != nil {
							x.cpanic = fmt.Sprintf("%v\n%s", p, panicSite())
						}
					}()
					x.res, x.cerr = eps[k](ctx, x.goPayload)
				}()
				ct.cur = nil
			}
		})
	}
	sim.Run()
	o.Steps, o.SchedHash, o.Tainted = sim.Steps, fmt.Sprintf("%016x", sim.ScheduleHash()), sim.Tainted()
	if sim.Deadlock {
		o.Violate("deadlock", "deadlock:generated-server", "all tasks blocked after %d steps", sim.Steps)
	}
	if sim.StepCapHit {
		o.Violate("no_progress", "stepcap:generated-server", "step cap reached")
	}
	for i, st := range sim.Tasks() {
		if st.Panic != nil {
			o.Violate("panic", "panic:"+firstLine(fmt.Sprint(st.Panic)), "client %d panicked: %v\n%s", i, st.Panic, st.Stack)
		}
	}
	// ---- echo oracle ------------------------------------------------------------------
	for i, ct := range tasks {
		for k, x := range ct.xs {
			if x.ex == nil {
				continue // task did not get that far (tainted run)
			}
			where := fmt.Sprintf("%s %s.%s (client %d call %d, %s)", name, x.svc.Name, x.m.Name, i, k, x.mode)
			o.Features["req_"+x.mode]++
			fmt.Fprintf(h, "%d.%d:%s:%d:%d:%v;", i, k, x.mode, x.ex.Status, len(x.invoked), x.cerr != nil)
			if x.cpanic != nil {
				o.Violate("client_panic", "client_panic:concurrent", "%s: %v", where, x.cpanic)
				continue
			}
			if x.ex.HandlerPanic != nil {
				sig := panicCause(d, x.m, x.result, x.ex)
				if strings.HasPrefix(sig, "handler_panic:") {
					sig = "handler_panic:concurrent:" + stackClass(x.ex)
				}
				o.Violate("handler_panic", sig, "%s: %v\n%s", where, x.ex.HandlerPanic, genFrames(x.ex.PanicStack))
				continue
			}
			if c := classifyFailureAny(d, x.m, x.payload, x.result, x.ex, x.cerr); c != "" {
				o.Features["known_defect_class_in_the_way"]++
				continue
			}
			if len(x.unhandled) > 0 {
				o.Violate("response_encoding_failed", "response_encoding_failed:concurrent", "%s: %v", where, x.unhandled[0])
				continue
			}
			for _, inv := range x.invoked {
				if x.m.Payload != nil {
					if vs := gen.Validate(d, inv.got, x.m.Payload, ""); len(vs) > 0 && !formatOnly(vs) {
						if rc := reachedClass(d, x.m, vs[0]); rc == "validation-error-dropped-by-required-cookie" || rc == exclMaxDefect {
							o.Features["known_defect_class_in_the_way"]++
						} else {
							o.Violate("leak_invalid_payload_reached_service", "leak_reached:"+rc, "%s: the service ran on %s which violates %v (own payload %s)", where, gen.Show(inv.got), vs, gen.Show(x.payload))
						}
					}
				}
			}
			switch x.mode {
			case "valid":
				if x.cerr != nil {
					o.Violate("leak_valid_failed", "leak_valid_failed:"+errName(x.cerr), "%s: own valid payload %s failed: %v", where, gen.Show(x.payload), x.cerr)
					continue
				}
				if len(x.invoked) != 1 {
					o.Violate("leak_invocations", "leak_invocations", "%s: service invoked %d times for this request", where, len(x.invoked))
					continue
				}
				if diff := gen.Diff(expectedPayload(d, x.m, x.payload), x.invoked[0].got, ""); diff != "" && diffClassP(d, x.m, diff, x.payload) == "query-map-key-contains-closing-bracket" {
					o.Features["known_defect_class_in_the_way"]++ // sequential defect recorded under C02, not a leak
				} else if diff != "" {
					o.Violate("leak_payload", "leak_payload", "%s: the service saw a payload that is not this request's: %s\n  sent     %s\n  received %s", where, diff, gen.Show(x.payload), gen.Show(x.invoked[0].got))
				}
				if x.m.Result != nil {
					got := gen.FromGo(d, reflect.ValueOf(x.res), x.m.Result.Type)
					want := gen.Expected(d, x.result, x.m.Result)
					if u := resultType(d, x.m); u != nil && x.m.Collection {
						// a collection: element by element
						ea := &spec.Attr{Type: &spec.Type{Kind: spec.Object, Fields: u.Attr.Type.Fields}}
						rs, _ := x.result.([]any)
						gs, _ := got.([]any)
						ws, gp := make([]any, len(rs)), make([]any, len(gs))
						for i := range rs {
							ws[i] = gen.Expected(d, gen.Project(d, rs[i], u, x.m.FixedView), ea)
						}
						for i := range gs {
							gp[i] = gen.Project(d, gs[i], u, x.m.FixedView)
						}
						want, got = ws, gp
					} else if u != nil {
						want = gen.Expected(d, gen.Project(d, x.result, u, x.m.FixedView), &spec.Attr{Type: &spec.Type{Kind: spec.Object, Fields: u.Attr.Type.Fields}})
						got = gen.Project(d, got, u, x.m.FixedView)
					}
					if diff := gen.Diff(want, got, ""); diff != "" && sameNestedTypeTwoViews(d, resultType(d, x.m)) && (strings.HasPrefix(diff, "sibling") || strings.HasPrefix(diff, "child")) {
						o.Features["known_defect_class_in_the_way"]++
					} else if diff != "" {
						o.Violate("leak_result", "leak_result", "%s: the client got a result that is not this request's: %s\n  returned %s\n  received %s", where, diff, gen.Show(x.result), gen.Show(got))
					}
				}
			case "invalid":
				if len(x.invoked) == 0 && (x.ex.Status < 400 || x.ex.Status > 499) {
					o.Violate("leak_status", "leak_status:invalid", "%s: invalid payload answered with %d", where, x.ex.Status)
				}
			case "declared":
				if len(x.invoked) == 1 && (x.cerr == nil || errName(x.cerr) != x.wantErr.Name || x.ex.Status != x.wantErr.Status || !strings.Contains(x.cerr.Error(), fmt.Sprintf("task %d call %d", i, k))) {
					o.Violate("leak_error", "leak_error:declared", "%s: want error %q (status %d) about task %d call %d, got %v (status %d)", where, x.wantErr.Name, x.wantErr.Status, i, k, x.cerr, x.ex.Status)
				}
			case "plain":
				if len(x.invoked) == 1 && (x.ex.Status != 500 || !strings.Contains(string(x.ex.RespBody), fmt.Sprintf("task %d call %d", i, k))) {
					o.Violate("leak_error", "leak_error:plain", "%s: want a 500 fault about task %d call %d, got status %d body %q", where, i, k, x.ex.Status, clipS(string(x.ex.RespBody)))
				}
			}
		}
	}
	o.Features["tasks"] = nTasks
	o.Features["requests"] = total
	o.Features["_evaluations"] = total
	if sim.Switches > nTasks {
		o.Features["interleaved_runs"]++
	}
	o.Nontrivial = nTasks > 1
	o.Distinct = name + "/" + o.SchedHash
	o.Digest = hex.EncodeToString(h.Sum(nil))[:16] + "/" + o.SchedHash
	o.Sample = map[string]any{"mode": "generated-server", "design": name, "tasks": nTasks, "requests": total, "strategy": int(sim.Strategy), "steps": sim.Steps, "schedule": sim.Sched,
		"client0": func() (r []string) {
			for _, x := range tasks[0].xs {
				r = append(r, x.svc.Name+"."+x.m.Name+":"+x.mode)
			}
			return
		}()}
	return o
}
