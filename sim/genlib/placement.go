package genlib

import (
	"sort"
	"bufio"
	"bytes"
	"encoding/json"
	"fmt"
	"net/http"
	"net/url"
	"strconv"
	"strings"

	"verif/sim/gen"
	"verif/sim/spec"
)

// Wire placement (DESIGN.md appendix A): which attribute must appear in which
// part of the message and nowhere else. Deliberately coarse; value correctness
// is judged end to end by delivery equality.

// textEq compares the wire text of a scalar with the model value after parsing
// by the designed type.
func textEq(kind string, text string, v any) bool {
	switch x := v.(type) {
	case string:
		return text == x
	case bool:
		b, err := strconv.ParseBool(text)
		return err == nil && b == x
	case int64:
		i, err := strconv.ParseInt(text, 10, 64)
		return err == nil && i == x
	case uint64:
		u, err := strconv.ParseUint(text, 10, 64)
		return err == nil && u == x
	case float64:
		f, err := strconv.ParseFloat(text, 64)
		return err == nil && (f == x || float32(f) == float32(x) && kind == spec.Float32)
	case []byte:
		return true // text form of bytes in parameters is not pinned by the design
	}
	return true
}

// fullPath joins the service base path and a route path.
func fullPath(s *spec.Service, r *spec.Route) string {
	p := strings.TrimSuffix(s.Path, "/") + r.Path
	if p == "" {
		p = "/"
	}
	return p
}

// bodyAttrs returns the payload attributes that travel in the body.
func bodyAttrs(d *spec.Design, m *spec.Method, a *spec.Attr, headers, cookies, params map[string]string, route string) []*spec.Attr {
	if a == nil {
		return nil
	}
	t := d.Resolve(a.Type)
	if t.Kind != spec.Object {
		return nil
	}
	var out []*spec.Attr
	for _, f := range t.Fields {
		if f.Sec == "username" || f.Sec == "password" {
			continue // Basic credentials always travel in the Authorization header
		}
		if _, ok := headers[f.Name]; ok {
			continue
		}
		if _, ok := cookies[f.Name]; ok {
			continue
		}
		if _, ok := params[f.Name]; ok {
			continue
		}
		if strings.Contains(route, "{"+f.Name+"}") || strings.Contains(route, "{*"+f.Name+"}") {
			continue
		}
		out = append(out, f)
	}
	return out
}

// CheckRequestPlacement verifies the request the generated client put on the
// wire against the design's mapping for the payload value (model form).
func CheckRequestPlacement(d *spec.Design, s *spec.Service, m *spec.Method, payload any, wire []byte) []string {
	errs := checkRequestPlacement(d, s, m, payload, wire)
	sort.Strings(errs) // the mapping tables are Go maps: report in a fixed order
	return errs
}

func checkRequestPlacement(d *spec.Design, s *spec.Service, m *spec.Method, payload any, wire []byte) []string {
	var errs []string
	req, err := http.ReadRequest(bufio.NewReader(bytes.NewReader(wire)))
	if err != nil {
		return []string{"request on the wire does not parse: " + err.Error()}
	}
	obj, _ := payload.(map[string]any)
	pt := &spec.Type{Kind: spec.Object}
	if m.Payload != nil {
		pt = d.Resolve(m.Payload.Type)
	}
	route := m.Routes[0]
	if len(m.Routes) > 1 && strings.HasPrefix(strings.TrimPrefix(req.URL.EscapedPath(), s.Path), "/r2/") {
		route = m.Routes[1] // sent over the method's second route
	}
	pat := fullPath(s, route)
	if req.Method != route.Verb {
		errs = append(errs, fmt.Sprintf("method %s, design says %s", req.Method, route.Verb))
	}
	// ---- path
	esc := req.URL.EscapedPath()
	psegs, wsegs := strings.Split(pat, "/"), strings.Split(esc, "/")
	if n := len(psegs); n > 0 && strings.HasPrefix(psegs[n-1], "{*") && len(wsegs) >= n {
		// a catch-all takes the rest of the path: compared as one value, slashes included
		name := strings.Trim(psegs[n-1], "{}*")
		rest := wsegs[n-1:]
		for i := range rest {
			if dec, err := url.PathUnescape(rest[i]); err == nil {
				rest[i] = dec
			}
		}
		if f := pt.Field(name); f != nil && obj[name] != nil && !textEq(spec.String, strings.Join(rest, "/"), obj[name]) {
			errs = append(errs, fmt.Sprintf("catch-all path parameter %s: wire text %q, value %s", name, strings.Join(rest, "/"), gen.Show(obj[name])))
		}
		psegs, wsegs = psegs[:n-1], wsegs[:n-1]
	}
	if len(psegs) != len(wsegs) {
		errs = append(errs, fmt.Sprintf("path %q does not have the shape of %q", esc, pat))
	} else {
		for i, ps := range psegs {
			if strings.HasPrefix(ps, "{") && strings.HasSuffix(ps, "}") {
				name := strings.Trim(ps, "{}*")
				dec, err := url.PathUnescape(wsegs[i])
				if err != nil {
					errs = append(errs, fmt.Sprintf("path segment %q is not valid percent-encoding", wsegs[i]))
					continue
				}
				if f := pt.Field(name); f != nil && obj[name] != nil && !textEq(d.Resolve(f.Type).Kind, dec, obj[name]) {
					errs = append(errs, fmt.Sprintf("path parameter %s: wire text %q, value %s", name, dec, gen.Show(obj[name])))
				}
			} else if ps != wsegs[i] {
				errs = append(errs, fmt.Sprintf("path %q: literal segment %q expected at position %d", esc, ps, i))
			}
		}
	}
	// ---- query
	q, qerr := url.ParseQuery(req.URL.RawQuery)
	if qerr != nil {
		errs = append(errs, "query string does not parse: "+qerr.Error())
	}
	wantQ := map[string]bool{}
	for attr, key := range m.Params {
		if key == "" {
			key = attr
		}
		wantQ[key] = true
		v := obj[attr]
		f := pt.Field(attr)
		if mv, ok := v.(*gen.MapVal); ok && f != nil {
			// a map travels as key[k]=v, one pair per element value
			et := d.Resolve(d.Resolve(f.Type).Elem.Type)
			for i, k := range mv.K {
				wk := fmt.Sprintf("%s[%v]", key, k)
				wantQ[wk] = true
				got := q[wk]
				if arr, isArr := mv.V[i].([]any); isArr {
					if len(got) != len(arr) {
						errs = append(errs, fmt.Sprintf("query key %q occurs %d times for %d array elements", wk, len(got), len(arr)))
						continue
					}
					for j := range arr {
						if !textEq(d.Resolve(et.Elem.Type).Kind, got[j], arr[j]) {
							errs = append(errs, fmt.Sprintf("query key %q element %d: wire %q, value %s", wk, j, got[j], gen.Show(arr[j])))
						}
					}
				} else if len(got) != 1 || !textEq(et.Kind, got[0], mv.V[i]) {
					errs = append(errs, fmt.Sprintf("query key %q: wire %q, value %s", wk, got, gen.Show(mv.V[i])))
				}
			}
			if _, bare := q[key]; bare {
				errs = append(errs, fmt.Sprintf("query key %q sent bare for the map attribute %s", key, attr))
			}
			continue
		}
		got, present := q[key]
		switch {
		case v == nil || isEmptyArr(v):
			if present {
				errs = append(errs, fmt.Sprintf("query key %q sent (%q) for unset attribute %s", key, got, attr))
			}
		case !present:
			errs = append(errs, fmt.Sprintf("attribute %s=%s missing from the query string (key %q)", attr, gen.Show(v), key))
		default:
			if arr, ok := v.([]any); ok {
				if len(got) != len(arr) {
					errs = append(errs, fmt.Sprintf("query key %q occurs %d times for %d array elements", key, len(got), len(arr)))
				} else {
					for i := range arr {
						if !textEq(d.Resolve(d.Resolve(f.Type).Elem.Type).Kind, got[i], arr[i]) {
							errs = append(errs, fmt.Sprintf("query key %q element %d: wire %q, value %s", key, i, got[i], gen.Show(arr[i])))
						}
					}
				}
			} else if len(got) != 1 || !textEq(d.Resolve(f.Type).Kind, got[0], v) {
				errs = append(errs, fmt.Sprintf("query key %q: wire %q, value %s", key, got, gen.Show(v)))
			}
		}
	}
	for key := range q {
		if !wantQ[key] {
			errs = append(errs, fmt.Sprintf("unexpected query key %q", key))
		}
	}
	// ---- headers
	for attr, name := range m.Headers {
		v := obj[attr]
		f := pt.Field(attr)
		got, present := req.Header[http.CanonicalHeaderKey(name)]
		switch {
		case v == nil || isEmptyArr(v):
			sibling := false // another credential attribute reads the same header and is set: the header is its
			for _, a := range sharedCarriers(d, m)[name] {
				if a != attr && obj[a] != nil {
					sibling = true
				}
			}
			if present && !sibling {
				errs = append(errs, fmt.Sprintf("header %s sent (%q) for unset attribute %s", name, got, attr))
			}
		case !present:
			errs = append(errs, fmt.Sprintf("attribute %s=%s missing from the headers (%s)", attr, gen.Show(v), name))
		default:
			if arr, ok := v.([]any); ok {
				if len(got) != len(arr) {
					errs = append(errs, fmt.Sprintf("header %s has %d field lines for %d array elements", name, len(got), len(arr)))
				}
			} else if len(got) != 1 || !(textEq(d.Resolve(f.Type).Kind, got[0], v) || f.Sec != "" && textEq(spec.String, strings.TrimPrefix(got[0], "Bearer "), v)) {
				errs = append(errs, fmt.Sprintf("header %s: wire %q, value %s", name, got, gen.Show(v)))
			}
		}
	}
	// ---- cookies
	for attr, name := range m.Cookies {
		v := obj[attr]
		c, cerr := req.Cookie(name)
		switch {
		case v == nil:
			if cerr == nil {
				errs = append(errs, fmt.Sprintf("cookie %s sent (%q) for unset attribute %s", name, c.Value, attr))
			}
		case cerr != nil:
			errs = append(errs, fmt.Sprintf("attribute %s=%s missing from the cookies (%s)", attr, gen.Show(v), name))
		default:
			if !textEq(d.Resolve(pt.Field(attr).Type).Kind, c.Value, v) {
				errs = append(errs, fmt.Sprintf("cookie %s: wire %q, value %s", name, c.Value, gen.Show(v)))
			}
		}
	}
	// ---- body keys
	ba := bodyAttrs(d, m, m.Payload, m.Headers, m.Cookies, m.Params, pat)
	var raw bytes.Buffer
	raw.ReadFrom(req.Body)
	if m.Payload != nil && pt.Kind != spec.Object {
		// the payload IS the body
		var js any
		if err := json.Unmarshal(raw.Bytes(), &js); err != nil && payload != nil {
			errs = append(errs, fmt.Sprintf("request body is not JSON: %v (%q)", err, clipS(raw.String())))
		}
		return errs
	}
	if len(ba) == 0 {
		if s := strings.TrimSpace(raw.String()); s != "" && s != "null" && s != "{}" {
			errs = append(errs, fmt.Sprintf("request has a body (%q) although no attribute travels in it", clipS(s)))
		}
		return errs
	}
	var bodyObj map[string]json.RawMessage
	if err := json.Unmarshal(raw.Bytes(), &bodyObj); err != nil {
		if anySet(obj, ba) {
			errs = append(errs, fmt.Sprintf("request body is not a JSON object: %v (%q)", err, clipS(raw.String())))
		}
		return errs
	}
	allowed := map[string]bool{}
	for _, f := range ba {
		allowed[f.Name] = true
		_, present := bodyObj[f.Name]
		if obj[f.Name] != nil && !isEmptyArr(obj[f.Name]) && !present {
			errs = append(errs, fmt.Sprintf("attribute %s=%s missing from the body", f.Name, gen.Show(obj[f.Name])))
		}
	}
	for k := range bodyObj {
		if !allowed[k] {
			errs = append(errs, fmt.Sprintf("body carries key %q which the design does not place in the body", k))
		}
	}
	return errs
}

func isEmptyArr(v any) bool {
	switch x := v.(type) {
	case []any:
		return len(x) == 0
	case *gen.MapVal:
		return x == nil || len(x.K) == 0
	case []byte:
		return len(x) == 0
	}
	return false
}

func anySet(obj map[string]any, attrs []*spec.Attr) bool {
	for _, f := range attrs {
		if obj[f.Name] != nil {
			return true
		}
	}
	return false
}

func clipS(s string) string {
	if len(s) > 160 {
		return s[:160] + "..."
	}
	return s
}

// CheckResponsePlacement verifies a success response against the design.
func CheckResponsePlacement(d *spec.Design, m *spec.Method, resp *spec.Response, result any, hdr http.Header, body []byte) []string {
	errs := checkResponsePlacement(d, m, resp, result, hdr, body)
	sort.Strings(errs)
	return errs
}

func checkResponsePlacement(d *spec.Design, m *spec.Method, resp *spec.Response, result any, hdr http.Header, body []byte) []string {
	var errs []string
	obj, _ := result.(map[string]any)
	var rt *spec.Type
	if m.Result != nil {
		rt = d.Resolve(m.Result.Type)
	}
	for attr, name := range resp.Headers {
		v := obj[attr]
		got, present := hdr[http.CanonicalHeaderKey(name)]
		switch {
		case v == nil:
			// (a defaulted attribute lives in a non-pointer field: the server cannot tell "left unset" from the zero
			// value and sends the zero value's text - that much is the design of the generated types, not a misplacement)
			if f := rt.Field(attr); present && !(f != nil && f.HasDef) {
				errs = append(errs, fmt.Sprintf("response header %s sent (%q) for unset attribute %s", name, got, attr))
			}
		case !present:
			errs = append(errs, fmt.Sprintf("result attribute %s=%s missing from the response headers (%s)", attr, gen.Show(v), name))
		default:
			if len(got) != 1 || !textEq(d.Resolve(rt.Field(attr).Type).Kind, got[0], v) {
				errs = append(errs, fmt.Sprintf("response header %s: wire %q, value %s", name, got, gen.Show(v)))
			}
		}
	}
	cookies := (&http.Response{Header: hdr}).Cookies()
	for attr, name := range resp.Cookies {
		v := obj[attr]
		var c *http.Cookie
		for _, x := range cookies {
			if x.Name == name {
				c = x
			}
		}
		switch {
		case v == nil:
			if f := rt.Field(attr); c != nil && !(f != nil && f.HasDef) {
				errs = append(errs, fmt.Sprintf("response cookie %s sent for unset attribute %s", name, attr))
			}
		case c == nil:
			errs = append(errs, fmt.Sprintf("result attribute %s=%s missing from the response cookies (%s)", attr, gen.Show(v), name))
		default:
			if !textEq(d.Resolve(rt.Field(attr).Type).Kind, c.Value, v) {
				errs = append(errs, fmt.Sprintf("response cookie %s: wire %q, value %s", name, c.Value, gen.Show(v)))
			}
		}
	}
	if rt == nil || rt.Kind != spec.Object {
		return errs
	}
	var ba []*spec.Attr
	for _, f := range rt.Fields {
		if _, ok := resp.Headers[f.Name]; ok {
			continue
		}
		if _, ok := resp.Cookies[f.Name]; ok {
			continue
		}
		ba = append(ba, f)
	}
	if len(ba) == 0 {
		if s := strings.TrimSpace(string(body)); s != "" && s != "null" && s != "{}" {
			errs = append(errs, fmt.Sprintf("response has a body (%q) although no result attribute travels in it", clipS(s)))
		}
		return errs
	}
	var bodyObj map[string]json.RawMessage
	if err := json.Unmarshal(body, &bodyObj); err != nil {
		errs = append(errs, fmt.Sprintf("response body is not a JSON object: %v (%q)", err, clipS(string(body))))
		return errs
	}
	allowed := map[string]bool{}
	for _, f := range ba {
		allowed[f.Name] = true
		_, present := bodyObj[f.Name]
		if obj[f.Name] != nil && !isEmptyArr(obj[f.Name]) && !present {
			errs = append(errs, fmt.Sprintf("result attribute %s=%s missing from the response body", f.Name, gen.Show(obj[f.Name])))
		}
	}
	for k := range bodyObj {
		if !allowed[k] {
			errs = append(errs, fmt.Sprintf("response body carries key %q which the design does not place in the body", k))
		}
	}
	return errs
}
