package genlib

import (
	"bufio"
	"bytes"
	"context"
	"encoding/json"
	"fmt"
	"io"
	"net/http"
	"os"
	"path/filepath"
	"sort"
	"strings"

	"github.com/getkin/kin-openapi/openapi3"
	"github.com/getkin/kin-openapi/openapi3filter"
	"github.com/getkin/kin-openapi/routers"
	"github.com/getkin/kin-openapi/routers/legacy"

	"verif/sim/simnet"
)

// C14: the exchanges the simulator produced are replayed into an independent
// OpenAPI 3 validator loaded with the document goa generated for the design.

type contract struct {
	doc    *openapi3.T
	router routers.Router
	err    error
}

var contracts = map[string]*contract{}

func loadContract(design string) *contract {
	if c, ok := contracts[design]; ok {
		return c
	}
	c := &contract{}
	contracts[design] = c
	path := filepath.Join(os.Getenv("VERIF_GEN_DIR"), design, "gen", "http", "openapi3.json")
	loader := openapi3.NewLoader()
	raw, err := os.ReadFile(path)
	if err != nil {
		c.err = fmt.Errorf("load %s: %w", path, err)
		return c
	}
	// goa writes exclusiveMinimum/exclusiveMaximum in their numeric (JSON Schema
	// draft 6+, OpenAPI 3.1) form inside a document that declares OpenAPI 3.0.x;
	// a 3.0 validator cannot even load that (a C07 matter, noted in DESIGN.md).
	// The same constraint is rewritten into the 3.0 form so that C14 can be judged.
	var tree any
	if err := json.Unmarshal(raw, &tree); err != nil {
		c.err = fmt.Errorf("parse %s: %w", path, err)
		return c
	}
	normaliseExclusive(tree)
	dropSetCookie(tree)
	registerMediaTypes(tree)
	raw, _ = json.Marshal(tree)
	doc, err := loader.LoadFromData(raw)
	if err != nil {
		c.err = fmt.Errorf("load %s: %w", path, err)
		return c
	}
	doc.Servers = nil // match on paths only: the simulated host is not in the document
	// examples are not part of the contract compared here (goa's generated examples often
	// violate the very schema they illustrate: again C07)
	if err := doc.Validate(loader.Context, openapi3.DisableExamplesValidation(), openapi3.DisableSchemaDefaultsValidation()); err != nil {
		c.err = fmt.Errorf("generated openapi3.json is not a valid document: %w", err)
		return c
	}
	r, err := legacy.NewRouter(doc, openapi3.DisableExamplesValidation(), openapi3.DisableSchemaDefaultsValidation())
	if err != nil {
		c.err = fmt.Errorf("router: %w", err)
		return c
	}
	c.doc, c.router = doc, r
	return c
}

// docVerdictRequest returns nil when the request as sent on the wire conforms
// to the operation's parameter and body schemas.
func (c *contract) docVerdictRequest(ex *simnet.Exchange) (verdict error, route *routers.Route, params map[string]string, req *http.Request, routed bool) {
	r, err := http.ReadRequest(bufio.NewReader(bytes.NewReader(ex.ReqWire)))
	if err != nil {
		return err, nil, nil, nil, false
	}
	body, _ := io.ReadAll(r.Body)
	r.Body = io.NopCloser(bytes.NewReader(body))
	r.URL.Scheme, r.URL.Host = "http", "sim"
	route, params, err = c.router.FindRoute(r)
	if err != nil {
		return err, nil, nil, r, false
	}
	// query parameters documented as deepObject maps (name[key]=value with a schema for the values only):
	// the validator cannot decode those (it knows deepObject for declared properties only), so they are
	// judged here against the documented value schema and taken out of what the validator sees
	restore, derr := judgeDeepObjectMaps(route, r)
	defer restore()
	if derr != nil {
		return derr, route, params, r, true
	}
	in := &openapi3filter.RequestValidationInput{Request: r, PathParams: params, Route: route,
		Options: &openapi3filter.Options{AuthenticationFunc: openapi3filter.NoopAuthenticationFunc, MultiError: false, SkipSettingDefaults: true}}
	verdict = openapi3filter.ValidateRequest(context.Background(), in)
	r.Body = io.NopCloser(bytes.NewReader(body))
	return verdict, route, params, r, true
}

// docVerdictResponse returns nil when the response conforms to the documented
// response for its status code.
func (c *contract) docVerdictResponse(ex *simnet.Exchange, route *routers.Route, params map[string]string, req *http.Request) error {
	in := &openapi3filter.ResponseValidationInput{
		RequestValidationInput: &openapi3filter.RequestValidationInput{Request: req, PathParams: params, Route: route,
			Options: &openapi3filter.Options{AuthenticationFunc: openapi3filter.NoopAuthenticationFunc, IncludeResponseStatus: true}},
		Status: ex.Status, Header: ex.RespHeader,
		Options: &openapi3filter.Options{IncludeResponseStatus: true},
	}
	in.SetBodyBytes(ex.RespBody)
	return openapi3filter.ValidateResponse(context.Background(), in)
}

// errClass compresses a validator message into a stable class name.
func errClass(err error) string {
	if err == nil {
		return "ok"
	}
	s := err.Error()
	for _, k := range []string{"minimum", "maximum", "minLength", "maxLength", "minItems", "maxItems", "pattern", "enum", "required", "format", "type", "parameter", "request body", "doesn't match", "not one of", "must be"} {
		if strings.Contains(s, k) {
			return strings.ReplaceAll(k, " ", "-")
		}
	}
	if len(s) > 40 {
		s = s[:40]
	}
	return s
}


func normaliseExclusive(n any) {
	switch x := n.(type) {
	case map[string]any:
		for _, k := range [][2]string{{"exclusiveMinimum", "minimum"}, {"exclusiveMaximum", "maximum"}} {
			if v, ok := x[k[0]].(float64); ok {
				if _, has := x[k[1]]; !has {
					x[k[1]] = v
					x[k[0]] = true
				}
			}
		}
		for _, v := range x {
			normaliseExclusive(v)
		}
	case []any:
		for _, v := range x {
			normaliseExclusive(v)
		}
	}
}


// dropSetCookie removes the Set-Cookie pseudo header goa documents for response
// cookies (OpenAPI 3 cannot describe them; its schema is the attribute's, which
// "name=value" can never match).
func dropSetCookie(n any) {
	switch x := n.(type) {
	case map[string]any:
		if h, ok := x["headers"].(map[string]any); ok {
			delete(h, "Set-Cookie")
		}
		for _, v := range x {
			dropSetCookie(v)
		}
	case []any:
		for _, v := range x {
			dropSetCookie(v)
		}
	}
}

var registered = map[string]bool{"application/json": true}

// registerMediaTypes teaches the validator that goa's vendor media types
// (result type identifiers, application/vnd.goa.error) carry JSON.
func registerMediaTypes(n any) {
	switch x := n.(type) {
	case map[string]any:
		if c, ok := x["content"].(map[string]any); ok {
			for ct := range c {
				if !registered[ct] {
					registered[ct] = true
					openapi3filter.RegisterBodyDecoder(ct, openapi3filter.JSONBodyDecoder)
				}
			}
		}
		for _, v := range x {
			registerMediaTypes(v)
		}
	case []any:
		for _, v := range x {
			registerMediaTypes(v)
		}
	}
}


// judgeDeepObjectMaps validates name[key]=value pairs of parameters documented with style deepObject and an
// additionalProperties schema, removes them from the request and makes the parameter optional for the
// validator call that follows (restore undoes that).
func judgeDeepObjectMaps(route *routers.Route, r *http.Request) (restore func(), err error) {
	var touched []*openapi3.Parameter
	restore = func() {
		for _, p := range touched {
			p.Required = true
		}
	}
	var ps openapi3.Parameters
	if route.PathItem != nil {
		ps = append(ps, route.PathItem.Parameters...)
	}
	ps = append(ps, route.Operation.Parameters...)
	q := r.URL.Query()
	changed := false
	for _, pr := range ps {
		p := pr.Value
		if p == nil || p.In != "query" || p.Style != "deepObject" || p.Schema == nil || p.Schema.Value == nil {
			continue
		}
		vs := p.Schema.Value.AdditionalProperties.Schema
		if vs == nil || vs.Value == nil || len(p.Schema.Value.Properties) > 0 {
			continue
		}
		found := 0
		keys := make([]string, 0, len(q))
		for k := range q {
			keys = append(keys, k)
		}
		sort.Strings(keys)
		for _, k := range keys {
			vals := q[k]
			if !strings.HasPrefix(k, p.Name+"[") || !strings.HasSuffix(k, "]") {
				continue
			}
			found++
			delete(q, k)
			changed = true
			if err == nil {
				err = deepObjectValue(p.Name, k, vals, vs.Value)
			}
		}
		if err == nil && p.Schema.Value.MinProps > uint64(found) {
			err = fmt.Errorf("parameter %q in query has an error: minimum number of properties is %d", p.Name, p.Schema.Value.MinProps)
		}
		if err == nil && p.Schema.Value.MaxProps != nil && *p.Schema.Value.MaxProps < uint64(found) {
			err = fmt.Errorf("parameter %q in query has an error: maximum number of properties is %d", p.Name, *p.Schema.Value.MaxProps)
		}
		if p.Required {
			if found == 0 && err == nil {
				err = fmt.Errorf("parameter %q in query has an error: value is required but missing", p.Name)
			}
			p.Required = false
			touched = append(touched, p)
		}
	}
	if changed {
		r.URL.RawQuery = q.Encode()
	}
	return restore, err
}

func deepObjectValue(name, key string, vals []string, s *openapi3.Schema) error {
	conv := func(txt string, s *openapi3.Schema) (any, error) {
		switch {
		case s.Type.Is("integer"), s.Type.Is("number"):
			var f json.Number = json.Number(txt)
			if _, err := f.Float64(); err != nil {
				return nil, fmt.Errorf("parameter %q in query has an error: %s: value %q is not a number (type)", name, key, txt)
			}
			var v any
			json.Unmarshal([]byte(txt), &v)
			if v == nil {
				fv, _ := f.Float64()
				v = fv
			}
			return v, nil
		case s.Type.Is("boolean"):
			if txt != "true" && txt != "false" {
				return nil, fmt.Errorf("parameter %q in query has an error: %s: value %q is not a boolean (type)", name, key, txt)
			}
			return txt == "true", nil
		}
		return txt, nil
	}
	if s.Type.Is("array") && s.Items != nil && s.Items.Value != nil {
		arr := make([]any, 0, len(vals))
		for _, t := range vals {
			v, err := conv(t, s.Items.Value)
			if err != nil {
				return err
			}
			arr = append(arr, v)
		}
		if err := s.VisitJSON(arr); err != nil {
			return fmt.Errorf("parameter %q in query has an error: %s: %w", name, key, err)
		}
		return nil
	}
	if len(vals) != 1 {
		return fmt.Errorf("parameter %q in query has an error: %s occurs %d times", name, key, len(vals))
	}
	v, err := conv(vals[0], s)
	if err != nil {
		return err
	}
	if err := s.VisitJSON(v); err != nil {
		return fmt.Errorf("parameter %q in query has an error: %s: %w", name, key, err)
	}
	return nil
}
