package genlib

import (
	"bufio"
	"bytes"
	"context"
	"encoding/json"
	"fmt"
	"io"
	"net/http"
	"os"
	"path/filepath"
	"strings"

	"github.com/getkin/kin-openapi/openapi3"
	"github.com/getkin/kin-openapi/openapi3filter"
	"github.com/getkin/kin-openapi/routers"
	"github.com/getkin/kin-openapi/routers/legacy"

	"verif/sim/simnet"
)

// C14: the exchanges the simulator produced are replayed into an independent
// OpenAPI 3 validator loaded with the document goa generated for the design.

type contract struct {
	doc    *openapi3.T
	router routers.Router
	err    error
}

var contracts = map[string]*contract{}

func loadContract(design string) *contract {
	if c, ok := contracts[design]; ok {
		return c
	}
	c := &contract{}
	contracts[design] = c
	path := filepath.Join(os.Getenv("VERIF_GEN_DIR"), design, "gen", "http", "openapi3.json")
	loader := openapi3.NewLoader()
	raw, err := os.ReadFile(path)
	if err != nil {
		c.err = fmt.Errorf("load %s: %w", path, err)
		return c
	}
	// goa writes exclusiveMinimum/exclusiveMaximum in their numeric (JSON Schema
	// draft 6+, OpenAPI 3.1) form inside a document that declares OpenAPI 3.0.x;
	// a 3.0 validator cannot even load that (a C07 matter, noted in DESIGN.md).
	// The same constraint is rewritten into the 3.0 form so that C14 can be judged.
	var tree any
	if err := json.Unmarshal(raw, &tree); err != nil {
		c.err = fmt.Errorf("parse %s: %w", path, err)
		return c
	}
	normaliseExclusive(tree)
	dropSetCookie(tree)
	registerMediaTypes(tree)
	raw, _ = json.Marshal(tree)
	doc, err := loader.LoadFromData(raw)
	if err != nil {
		c.err = fmt.Errorf("load %s: %w", path, err)
		return c
	}
	doc.Servers = nil // match on paths only: the simulated host is not in the document
	// examples are not part of the contract compared here (goa's generated examples often
	// violate the very schema they illustrate: again C07)
	if err := doc.Validate(loader.Context, openapi3.DisableExamplesValidation(), openapi3.DisableSchemaDefaultsValidation()); err != nil {
		c.err = fmt.Errorf("generated openapi3.json is not a valid document: %w", err)
		return c
	}
	r, err := legacy.NewRouter(doc, openapi3.DisableExamplesValidation(), openapi3.DisableSchemaDefaultsValidation())
	if err != nil {
		c.err = fmt.Errorf("router: %w", err)
		return c
	}
	c.doc, c.router = doc, r
	return c
}

// docVerdictRequest returns nil when the request as sent on the wire conforms
// to the operation's parameter and body schemas.
func (c *contract) docVerdictRequest(ex *simnet.Exchange) (verdict error, route *routers.Route, params map[string]string, req *http.Request, routed bool) {
	r, err := http.ReadRequest(bufio.NewReader(bytes.NewReader(ex.ReqWire)))
	if err != nil {
		return err, nil, nil, nil, false
	}
	body, _ := io.ReadAll(r.Body)
	r.Body = io.NopCloser(bytes.NewReader(body))
	r.URL.Scheme, r.URL.Host = "http", "sim"
	route, params, err = c.router.FindRoute(r)
	if err != nil {
		return err, nil, nil, r, false
	}
	in := &openapi3filter.RequestValidationInput{Request: r, PathParams: params, Route: route,
		Options: &openapi3filter.Options{AuthenticationFunc: openapi3filter.NoopAuthenticationFunc, MultiError: false, SkipSettingDefaults: true}}
	verdict = openapi3filter.ValidateRequest(context.Background(), in)
	r.Body = io.NopCloser(bytes.NewReader(body))
	return verdict, route, params, r, true
}

// docVerdictResponse returns nil when the response conforms to the documented
// response for its status code.
func (c *contract) docVerdictResponse(ex *simnet.Exchange, route *routers.Route, params map[string]string, req *http.Request) error {
	in := &openapi3filter.ResponseValidationInput{
		RequestValidationInput: &openapi3filter.RequestValidationInput{Request: req, PathParams: params, Route: route,
			Options: &openapi3filter.Options{AuthenticationFunc: openapi3filter.NoopAuthenticationFunc, IncludeResponseStatus: true}},
		Status: ex.Status, Header: ex.RespHeader,
		Options: &openapi3filter.Options{IncludeResponseStatus: true},
	}
	in.SetBodyBytes(ex.RespBody)
	return openapi3filter.ValidateResponse(context.Background(), in)
}

// errClass compresses a validator message into a stable class name.
func errClass(err error) string {
	if err == nil {
		return "ok"
	}
	s := err.Error()
	for _, k := range []string{"minimum", "maximum", "minLength", "maxLength", "minItems", "maxItems", "pattern", "enum", "required", "format", "type", "parameter", "request body", "doesn't match", "not one of", "must be"} {
		if strings.Contains(s, k) {
			return strings.ReplaceAll(k, " ", "-")
		}
	}
	if len(s) > 40 {
		s = s[:40]
	}
	return s
}


func normaliseExclusive(n any) {
	switch x := n.(type) {
	case map[string]any:
		for _, k := range [][2]string{{"exclusiveMinimum", "minimum"}, {"exclusiveMaximum", "maximum"}} {
			if v, ok := x[k[0]].(float64); ok {
				if _, has := x[k[1]]; !has {
					x[k[1]] = v
					x[k[0]] = true
				}
			}
		}
		for _, v := range x {
			normaliseExclusive(v)
		}
	case []any:
		for _, v := range x {
			normaliseExclusive(v)
		}
	}
}


// dropSetCookie removes the Set-Cookie pseudo header goa documents for response
// cookies (OpenAPI 3 cannot describe them; its schema is the attribute's, which
// "name=value" can never match).
func dropSetCookie(n any) {
	switch x := n.(type) {
	case map[string]any:
		if h, ok := x["headers"].(map[string]any); ok {
			delete(h, "Set-Cookie")
		}
		for _, v := range x {
			dropSetCookie(v)
		}
	case []any:
		for _, v := range x {
			dropSetCookie(v)
		}
	}
}

var registered = map[string]bool{"application/json": true}

// registerMediaTypes teaches the validator that goa's vendor media types
// (result type identifiers, application/vnd.goa.error) carry JSON.
func registerMediaTypes(n any) {
	switch x := n.(type) {
	case map[string]any:
		if c, ok := x["content"].(map[string]any); ok {
			for ct := range c {
				if !registered[ct] {
					registered[ct] = true
					openapi3filter.RegisterBodyDecoder(ct, openapi3filter.JSONBodyDecoder)
				}
			}
		}
		for _, v := range x {
			registerMediaTypes(v)
		}
	case []any:
		for _, v := range x {
			registerMediaTypes(v)
		}
	}
}
