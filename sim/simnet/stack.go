package simnet

import "runtime"

func runtimeStack(buf []byte) int { return runtime.Stack(buf, false) }
