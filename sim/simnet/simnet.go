// Package simnet is the simulated transport between a goa HTTP client
// (goahttp.Doer) and a mounted goa HTTP server (http.Handler): real net/http
// framing in both directions, tape-chosen chunking, legal perturbations and
// byte-level faults, no sockets and no goroutines of its own
// (DESIGN.md section 3.4).
package simnet

import (
	"bufio"
	"bytes"
	"context"
	"encoding/json"
	"errors"
	"fmt"
	"io"
	"net/http"
	"sort"
	"strings"

	"goa.design/goa/v3/verifsim"
)

// Faults enabled for one Net (swarm configuration). Rates are per exchange,
// in 1/1000.
type Config struct {
	Chunking      bool // tape-chosen read chunk sizes (else whole buffers)
	ForceChunked  int  // permille: send request body with chunked transfer encoding
	RewriteBodyRate int                       // permille: the request body is replaced by RewriteBody(body) when it returns non-nil
	RewriteBody     func(body []byte) []byte  // (a proxy, a hand-written client, another implementation: any JSON may arrive)
	DoubleClose   int  // permille: the request body is closed twice (legal: net/http's client does on some paths)
	HeaderNoise   int  // permille: change header-name case / order, add unrelated headers
	CutRequest    int
	FlipRequest   int
	DupRequest    int
	DropRequest   int
	CutResponse   int
	FlipResponse  int
	WriterError   int
	Delay         int
	DropElement   int  // permille: remove one designed element (query key, header, cookie, top-level JSON body key) from the request
	Droppable     func(loc, name string) bool // which elements may be removed (nil: none)
	// Reroute may move the request to another route the design gives the same method (verb and path);
	// it returns true when it did. Called once per request, before it is serialised.
	Reroute func(req *http.Request) bool
	Yields        bool // scheduling points at transport I/O
	FlipRegion    func(wire []byte) (lo, hi int) // region of the request in which flips may land (nil: body)
	RewriteHeader map[string][]string            // response header rewrites (name -> candidate values), applied with RewriteRate
	RewriteRate   int
}

// Exchange is the history record of one Do.
type Exchange struct {
	Seq            uint64
	Method, Target string
	ReqWire        []byte // as sent by the client (before faults)
	ReqDelivered   []byte // as seen by the server (after faults), nil if dropped
	ReqFault       string
	ReqFaultAt     int
	ReqWireSent    []byte // drop_element: the request before the element was removed
	Rerouted       bool   // the request was moved to the design's alternative route
	BodyRewritten  bool   // rewrite_body fired
	DroppedLoc     string // drop_element: query | header | cookie | body
	DroppedName    string
	Parsed         bool // the server side could parse the request head
	Served         int  // number of times the handler ran (dup_request: 2)
	Status         int
	WriteHeaders   int // explicit WriteHeader calls (final status codes)
	Informational  []int // 1xx responses sent before the final one
	HeaderAfterWrite bool
	RespHeader     http.Header
	RespBody       []byte // as written by the handler
	RespWire       []byte // as delivered to the client (after faults)
	RespFault      string
	RespFaultAt    int
	WriterErrAt    int // -1: none
	WriterErrSeen  bool
	HandlerPanic   any
	PanicStack     string
	ClientErr      error // error returned by Do itself
	Second         *Exchange // duplicate delivery
	Faults         []string
}

type traceKey struct{}

// WithExchange makes Do record into ex for requests carrying ctx.
func WithExchange(ctx context.Context, ex *Exchange) context.Context {
	return context.WithValue(ctx, traceKey{}, ex)
}

// Net implements goahttp.Doer.
type Net struct {
	Tape    *verifsim.Tape
	Handler http.Handler
	Cfg     Config
	// ServerCtx, when set, derives the context of each server-side request
	// (e.g. to plant per-request values); default context.Background().
	ServerCtx func(ex *Exchange) context.Context
}

func (n *Net) yield(tag string) {
	if n.Cfg.Yields {
		verifsim.Yield(tag)
	}
}

func (n *Net) hit(kind string, permille int) bool {
	if permille <= 0 {
		return false
	}
	return n.Tape.Draw(kind, 1000) < permille
}

// chunkReader yields data in tape-chosen pieces and ends with err (io.EOF or
// io.ErrUnexpectedEOF for a cut stream).
type chunkReader struct {
	n    *Net
	data []byte
	end  error
	tag  string
}

func (c *chunkReader) Read(p []byte) (int, error) {
	if len(c.data) == 0 {
		return 0, c.end
	}
	c.n.yield(c.tag)
	k := len(p)
	if k > len(c.data) {
		k = len(c.data)
	}
	if c.n.Cfg.Chunking && k > 1 {
		switch c.n.Tape.Draw("chunk", 4) { // 0 (the minimiser's favourite) = whole buffer
		case 1:
			k = 1
		case 2:
			k = 1 + c.n.Tape.Draw("chunklen", k)
		case 3:
			if k > 7 {
				k = 1 + c.n.Tape.Draw("chunklen", 7)
			}
		}
	}
	copy(p, c.data[:k])
	c.data = c.data[k:]
	return k, nil
}

// ErrTransport is what the client sees when the connection dies.
var ErrTransport = errors.New("simnet: connection reset")

// Do sends req through the simulated network.
func (n *Net) Do(req *http.Request) (*http.Response, error) {
	ex, _ := req.Context().Value(traceKey{}).(*Exchange)
	if ex == nil {
		ex = &Exchange{}
	}
	if s := verifsim.Active(); s != nil {
		ex.Seq = s.Seq()
	}
	ex.WriterErrAt = -1
	ex.Method = req.Method
	resp, err := n.do(req, ex)
	ex.ClientErr = err
	return resp, err
}

func (n *Net) do(req *http.Request, ex *Exchange) (*http.Response, error) {
	t := n.Tape
	// calling the transport is a scheduling point: other clients may build and send requests between
	// the moment this one was encoded and the moment its body is read
	n.yield("net-do")
	// a transport always closes the request body (RoundTripper contract), and net/http's client closes it a
	// second time on some paths (a redirect followed as GET, an error after the body was handed over):
	// Close must tolerate being called again
	orig, replaced := req.Body, false
	// 1. serialise
	if req.Body != nil && req.Body != http.NoBody && n.hit("force-chunked", n.Cfg.ForceChunked) {
		req.ContentLength = -1
		req.TransferEncoding = []string{"chunked"}
		ex.Faults = append(ex.Faults, "perturb:chunked-framing")
	} else if req.Body != nil && req.ContentLength == 0 {
		// the generated encoders install an io.NopCloser over a buffer; give
		// net/http the length the way http.NewRequest would
		b, err := io.ReadAll(req.Body)
		if err != nil {
			return nil, err
		}
		req.Body = io.NopCloser(bytes.NewReader(b))
		replaced = true
		req.ContentLength = int64(len(b))
		if len(b) == 0 {
			req.Body = http.NoBody
		}
	}
	if n.Cfg.Reroute != nil && n.Cfg.Reroute(req) {
		ex.Rerouted = true
		ex.Faults = append(ex.Faults, "perturb:alternative-route")
	}
	if req.URL.Host == "" {
		req.URL.Host = "sim"
	}
	var wire bytes.Buffer
	if err := req.Write(&wire); err != nil {
		return nil, fmt.Errorf("simnet: request cannot be written: %w", err)
	}
	if orig != nil && orig != http.NoBody {
		if replaced {
			_ = orig.Close() // (Request.Write closed the body it was given)
		}
		if n.hit("double-close", n.Cfg.DoubleClose) {
			_ = orig.Close()
			ex.Faults = append(ex.Faults, "perturb:body-closed-twice")
		}
	}
	ex.ReqWire = append([]byte(nil), wire.Bytes()...)
	ex.Target = req.URL.RequestURI()
	data := wire.Bytes()
	// 2. perturb
	if n.hit("header-noise", n.Cfg.HeaderNoise) {
		data = n.headerNoise(data)
		ex.Faults = append(ex.Faults, "perturb:header-noise")
	}
	if n.hit("delay", n.Cfg.Delay) {
		ex.Faults = append(ex.Faults, "delay")
		for i := 1 + t.Draw("delay-n", 4); i > 0; i-- {
			verifsim.Yield("net-delay")
		}
	}
	// 3. faults on the request
	end := io.EOF
	if n.hit("drop-element", n.Cfg.DropElement) && n.Cfg.Droppable != nil {
		if nd, loc, name := n.dropElement(data); nd != nil {
			data = nd
			ex.ReqWireSent = ex.ReqWire
			ex.ReqWire = append([]byte(nil), nd...) // the request as it now stands is what every oracle judges
			ex.DroppedLoc, ex.DroppedName = loc, name
			ex.Faults = append(ex.Faults, "drop_element")
		}
	}
	if ex.DroppedLoc == "" && n.Cfg.RewriteBody != nil && n.hit("rewrite-body", n.Cfg.RewriteBodyRate) {
		if nd := n.rewriteBody(data); nd != nil {
			data = nd
			ex.ReqWireSent = ex.ReqWire
			ex.ReqWire = append([]byte(nil), nd...)
			ex.BodyRewritten = true
			ex.Faults = append(ex.Faults, "rewrite_body")
		}
	}
	switch {
	case n.hit("drop-request", n.Cfg.DropRequest):
		ex.ReqFault = "drop_request"
		ex.Faults = append(ex.Faults, "drop_request")
		return nil, ErrTransport
	case n.hit("cut-request", n.Cfg.CutRequest) && len(data) > 1:
		k := t.Draw("cut-at", len(data))
		if t.Draw("cut-in-body", 2) == 0 {
			if i := bytes.Index(data, []byte("\r\n\r\n")); i >= 0 && i+4 < len(data) {
				k = i + 4 + t.Draw("cut-at", len(data)-i-4)
			}
		}
		data = data[:k]
		end = io.ErrUnexpectedEOF
		ex.ReqFault, ex.ReqFaultAt = "cut_request", k
		ex.Faults = append(ex.Faults, "cut_request")
	case n.hit("flip-request", n.Cfg.FlipRequest) && len(data) > 0:
		lo, hi := 0, len(data)
		if n.Cfg.FlipRegion != nil {
			lo, hi = n.Cfg.FlipRegion(data)
		} else if i := bytes.Index(data, []byte("\r\n\r\n")); i >= 0 && i+4 < len(data) {
			lo = i + 4
		}
		if hi > lo {
			k := lo + t.Draw("flip-at", hi-lo)
			data = append([]byte(nil), data...)
			data[k] ^= 1 << uint(t.Draw("flip-bit", 7))
			ex.ReqFault, ex.ReqFaultAt = "flip_request_byte", k
			ex.Faults = append(ex.Faults, "flip_request_byte")
		}
	}
	ex.ReqDelivered = data
	dup := n.hit("dup-request", n.Cfg.DupRequest)
	// 4. deliver
	rw := n.serve(req.Context(), data, end, ex)
	if dup {
		ex.Faults = append(ex.Faults, "dup_request")
		ex.Second = &Exchange{WriterErrAt: -1, Method: ex.Method, Target: ex.Target, ReqDelivered: data}
		n.serve(req.Context(), data, end, ex.Second)
		ex.Served += ex.Second.Served
	}
	if rw == nil {
		return nil, ErrTransport
	}
	// 5. return
	return n.deliver(req, rw, ex)
}

func (n *Net) headerNoise(data []byte) []byte {
	t := n.Tape
	i := bytes.Index(data, []byte("\r\n\r\n"))
	if i < 0 {
		return data
	}
	lines := strings.Split(string(data[:i]), "\r\n")
	head, hs := lines[0], lines[1:]
	for k, l := range hs {
		c := strings.Index(l, ":")
		if c <= 0 {
			continue
		}
		name := l[:c]
		switch t.Draw("hcase", 4) {
		case 0:
			name = strings.ToLower(name)
		case 1:
			name = strings.ToUpper(name)
		}
		hs[k] = name + l[c:]
	}
	if t.Draw("hsort", 2) == 0 {
		// stable reorder: keeps the relative order of lines with the same name
		sort.SliceStable(hs, func(a, b int) bool {
			na := strings.ToLower(hs[a][:strings.Index(hs[a]+":", ":")])
			nb := strings.ToLower(hs[b][:strings.Index(hs[b]+":", ":")])
			return na > nb
		})
	}
	if t.Draw("hextra", 2) == 0 {
		hs = append(hs, "Via: 1.1 simnet", "X-Forwarded-For: 192.0.2.7")
	}
	out := head + "\r\n" + strings.Join(hs, "\r\n")
	return append([]byte(out), data[i:]...)
}

// recorder is the server-side ResponseWriter.
type recorder struct {
	n       *Net
	ex      *Exchange
	hdr     http.Header
	snap    http.Header
	status  int
	body    bytes.Buffer
	wrote   bool
	errAt   int
	flushes int
}

func (r *recorder) Header() http.Header {
	if r.wrote {
		r.ex.HeaderAfterWrite = true
	}
	return r.hdr
}

func (r *recorder) WriteHeader(code int) {
	r.n.yield("net-writeheader")
	if code >= 100 && code <= 199 && code != http.StatusSwitchingProtocols && !r.wrote {
		// informational responses (Early Hints, Processing, Continue) go out at once and commit nothing
		r.ex.Informational = append(r.ex.Informational, code)
		return
	}
	r.ex.WriteHeaders++
	if r.wrote {
		return // net/http ignores (and logs) superfluous calls
	}
	r.commit(code)
}

func (r *recorder) commit(code int) {
	r.wrote = true
	r.status = code
	r.snap = r.hdr.Clone()
}

func (r *recorder) Write(p []byte) (int, error) {
	r.n.yield("net-write")
	if !r.wrote {
		r.commit(200)
	}
	if r.errAt >= 0 && r.body.Len()+len(p) > r.errAt {
		k := r.errAt - r.body.Len()
		if k < 0 {
			k = 0
		}
		r.body.Write(p[:k])
		r.ex.WriterErrSeen = true
		return k, errors.New("simnet: write: broken pipe")
	}
	return r.body.Write(p)
}

func (r *recorder) Flush() { r.flushes++ }

// ReadFrom and WriteString are what net/http's own response writer offers besides Write (io.Copy and
// io.WriteString pick them up): a wrapper that forwards them has to account for them like for Write.
func (r *recorder) ReadFrom(src io.Reader) (int64, error) {
	var total int64
	buf := make([]byte, 512)
	for {
		n, rerr := src.Read(buf)
		if n > 0 {
			w, werr := r.Write(buf[:n])
			total += int64(w)
			if werr != nil {
				return total, werr
			}
		}
		if rerr == io.EOF {
			return total, nil
		}
		if rerr != nil {
			return total, rerr
		}
	}
}

func (r *recorder) WriteString(s string) (int, error) { return r.Write([]byte(s)) }

func (n *Net) serve(cctx context.Context, data []byte, end error, ex *Exchange) *recorder {
	br := bufio.NewReader(&chunkReader{n: n, data: data, end: end, tag: "net-read-req"})
	sreq, err := http.ReadRequest(br)
	if err != nil {
		// what net/http's server does with an unparsable request head
		ex.Parsed = false
		if end == io.ErrUnexpectedEOF {
			return nil // connection died mid-head: nothing comes back
		}
		r := &recorder{n: n, ex: ex, hdr: http.Header{}, errAt: -1}
		r.hdr.Set("Content-Type", "text/plain; charset=utf-8")
		r.commit(400)
		r.body.WriteString("400 Bad Request")
		ex.Status = 400
		return r
	}
	ex.Parsed = true
	ctx := context.Background()
	if n.ServerCtx != nil {
		ctx = n.ServerCtx(ex)
	}
	sreq = sreq.WithContext(ctx)
	sreq.RemoteAddr = "192.0.2.1:4711"
	r := &recorder{n: n, ex: ex, hdr: http.Header{}, errAt: -1}
	if n.hit("writer-error", n.Cfg.WriterError) {
		r.errAt = n.Tape.Draw("writer-error-at", 64)
		if n.Tape.Draw("writer-error-late", 3) == 0 {
			r.errAt = n.Tape.Draw("writer-error-at", 2048)
		}
		ex.WriterErrAt = r.errAt
		ex.Faults = append(ex.Faults, "writer_error")
	}
	func() {
		defer func() {
			if p := recover(); p != nil {
				if p == http.ErrAbortHandler {
					ex.HandlerPanic = "http.ErrAbortHandler"
				} else {
					ex.HandlerPanic = p
				}
				buf := make([]byte, 4096)
				ex.PanicStack = string(buf[:runtimeStack(buf)])
			}
		}()
		ex.Served++
		n.Handler.ServeHTTP(r, sreq)
	}()
	if !r.wrote {
		r.commit(200)
	}
	ex.Status = r.status
	ex.RespHeader = r.snap
	ex.RespBody = append([]byte(nil), r.body.Bytes()...)
	if ex.HandlerPanic != nil || ex.WriterErrSeen {
		// connection aborted: the client gets whatever made it out, truncated
		return r
	}
	return r
}

func (n *Net) deliver(req *http.Request, r *recorder, ex *Exchange) (*http.Response, error) {
	t := n.Tape
	hdr := r.snap.Clone()
	if n.Cfg.RewriteHeader != nil && n.hit("rewrite-header", n.Cfg.RewriteRate) {
		names := make([]string, 0, len(n.Cfg.RewriteHeader))
		for k := range n.Cfg.RewriteHeader {
			names = append(names, k)
		}
		sort.Strings(names)
		name := names[t.Draw("rewrite-name", len(names))]
		vals := n.Cfg.RewriteHeader[name]
		v := vals[t.Draw("rewrite-val", len(vals))]
		hdr.Set(name, v)
		ex.RespFault = "rewrite_header:" + name + "=" + v
		ex.Faults = append(ex.Faults, "rewrite_header")
	}
	body := r.body.Bytes()
	resp := &http.Response{
		StatusCode: r.status, ProtoMajor: 1, ProtoMinor: 1, Header: hdr,
		Body: io.NopCloser(bytes.NewReader(body)), ContentLength: int64(len(body)), Request: req,
	}
	if hdr.Get("Content-Length") != "" {
		hdr.Del("Content-Length")
	}
	var wire bytes.Buffer
	if err := resp.Write(&wire); err != nil {
		return nil, fmt.Errorf("simnet: response cannot be written: %w", err)
	}
	data := wire.Bytes()
	end := io.EOF
	truncated := ex.HandlerPanic != nil || ex.WriterErrSeen
	switch {
	case truncated:
		// headers were computed for the full body; the peer went away, so the
		// stream simply ends early
		cut := bytes.Index(data, []byte("\r\n\r\n"))
		if cut >= 0 {
			// announce more than arrives so that the client notices
			h := string(data[:cut])
			h = strings.Replace(h, fmt.Sprintf("Content-Length: %d", len(body)), fmt.Sprintf("Content-Length: %d", len(body)+64), 1)
			data = append([]byte(h), data[cut:]...)
		}
		end = io.ErrUnexpectedEOF
	case n.hit("cut-response", n.Cfg.CutResponse) && len(data) > 1:
		k := t.Draw("cut-at", len(data))
		data = data[:k]
		end = io.ErrUnexpectedEOF
		ex.RespFault, ex.RespFaultAt = "cut_response", k
		ex.Faults = append(ex.Faults, "cut_response")
	case n.hit("flip-response", n.Cfg.FlipResponse) && len(body) > 0:
		lo := len(data) - len(body)
		k := lo + t.Draw("flip-at", len(body))
		data = append([]byte(nil), data...)
		data[k] ^= 1 << uint(t.Draw("flip-bit", 7))
		ex.RespFault, ex.RespFaultAt = "flip_response_byte", k-lo
		ex.Faults = append(ex.Faults, "flip_response_byte")
	}
	ex.RespWire = data
	br := bufio.NewReader(&chunkReader{n: n, data: data, end: end, tag: "net-read-resp"})
	cresp, err := http.ReadResponse(br, req)
	if err != nil {
		return nil, fmt.Errorf("%w: %v", ErrTransport, err)
	}
	return cresp, nil
}


// dropElement removes one droppable element from a serialised request: the
// request stays well-formed HTTP, it just lacks one thing the client sent (what
// a hand-written client, a proxy that strips a header, or a stale cache of the
// API description produces).
// rewriteBody hands the request body to Cfg.RewriteBody and re-frames the request around what it returns.
func (n *Net) rewriteBody(wire []byte) []byte {
	req, err := http.ReadRequest(bufio.NewReader(bytes.NewReader(wire)))
	if err != nil {
		return nil
	}
	body, _ := io.ReadAll(req.Body)
	if len(body) == 0 {
		return nil
	}
	nb := n.Cfg.RewriteBody(body)
	if nb == nil {
		return nil
	}
	req.Body = io.NopCloser(bytes.NewReader(nb))
	req.ContentLength = int64(len(nb))
	req.TransferEncoding = nil
	req.RequestURI = ""
	req.URL.Host = req.Host
	req.URL.Scheme = "http"
	var out bytes.Buffer
	if err := req.Write(&out); err != nil {
		return nil
	}
	return out.Bytes()
}

func (n *Net) dropElement(wire []byte) ([]byte, string, string) {
	req, err := http.ReadRequest(bufio.NewReader(bytes.NewReader(wire)))
	if err != nil {
		return nil, "", ""
	}
	body, _ := io.ReadAll(req.Body)
	type el struct{ loc, name string }
	var els []el
	q := req.URL.Query()
	for k := range q {
		if n.Cfg.Droppable("query", k) {
			els = append(els, el{"query", k})
		}
	}
	for k := range req.Header {
		if k != "Cookie" && n.Cfg.Droppable("header", k) {
			els = append(els, el{"header", k})
		}
	}
	for _, c := range req.Cookies() {
		if n.Cfg.Droppable("cookie", c.Name) {
			els = append(els, el{"cookie", c.Name})
		}
	}
	var obj map[string]json.RawMessage
	if len(body) > 0 && json.Unmarshal(body, &obj) == nil {
		for k := range obj {
			if n.Cfg.Droppable("body", k) {
				els = append(els, el{"body", k})
			}
		}
	}
	if len(els) == 0 {
		return nil, "", ""
	}
	sort.Slice(els, func(i, j int) bool { return els[i].loc+"/"+els[i].name < els[j].loc+"/"+els[j].name })
	e := els[n.Tape.Draw("drop-which", len(els))]
	switch e.loc {
	case "query":
		q.Del(e.name)
		req.URL.RawQuery = q.Encode()
	case "header":
		req.Header.Del(e.name)
	case "cookie":
		cs := req.Cookies()
		req.Header.Del("Cookie")
		for _, c := range cs {
			if c.Name != e.name {
				req.AddCookie(c)
			}
		}
	case "body":
		delete(obj, e.name)
		keys := make([]string, 0, len(obj))
		for k := range obj {
			keys = append(keys, k)
		}
		sort.Strings(keys)
		var b bytes.Buffer
		b.WriteByte('{')
		for i, k := range keys {
			if i > 0 {
				b.WriteByte(',')
			}
			kb, _ := json.Marshal(k)
			b.Write(kb)
			b.WriteByte(':')
			b.Write(obj[k])
		}
		b.WriteByte('}')
		body = b.Bytes()
	}
	req.Body = io.NopCloser(bytes.NewReader(body))
	req.ContentLength = int64(len(body))
	req.TransferEncoding = nil
	if len(body) == 0 {
		req.Body = http.NoBody
	}
	req.URL.Scheme, req.URL.Host = "", ""
	req.RequestURI = ""
	var out bytes.Buffer
	req.URL.Host = req.Host
	req.URL.Scheme = "http"
	if err := req.Write(&out); err != nil {
		return nil, "", ""
	}
	return out.Bytes(), e.loc, e.name
}
