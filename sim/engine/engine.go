// Package engine is the worker-side framework shared by the RT, GEN and DIR
// engines: one scenario = one tape; outcomes are JSON lines; race reports are
// attributed to the run in which the detector logged them.
package engine

import (
	"strconv"
	"bufio"
	"encoding/json"
	"flag"
	"fmt"
	"os"
	"path/filepath"
	"runtime"
	"runtime/debug"
	"sort"
	"strings"
	"time"

	"goa.design/goa/v3/verifsim"
)

// Violation is one broken oracle rule.
type Violation struct {
	Rule      string `json:"rule"`      // stable rule identifier
	Signature string `json:"signature"` // feature signature used to match known findings
	Detail    string `json:"detail"`
}

// Outcome is what one simulated run reports.
type Outcome struct {
	Seed       uint64            `json:"seed"`
	Prop       string            `json:"prop"`
	Violations []Violation       `json:"violations,omitempty"`
	Features   map[string]int    `json:"features,omitempty"` // probes, fault counts, op counts
	Distinct   string            `json:"distinct,omitempty"` // key for distinct counting
	Nontrivial bool              `json:"nontrivial"`
	SchedHash  string            `json:"sched,omitempty"`
	Steps      int               `json:"steps,omitempty"`
	SimSeconds float64           `json:"sim_s,omitempty"`
	Digest     string            `json:"digest"` // digest of the event log (determinism check)
	Sample     any               `json:"sample,omitempty"`
	Tainted    bool              `json:"tainted,omitempty"`
	Tape       []verifsim.Draw   `json:"tape,omitempty"`
	Diverged   string            `json:"diverged,omitempty"`
	Extra      map[string]string `json:"extra,omitempty"`
}

// Config is passed to every scenario.
type Config struct {
	Tier    string
	Verbose bool
	Args    map[string]string
}

// RunFunc executes one scenario drawn from the tape.
type RunFunc func(t *verifsim.Tape, cfg Config) *Outcome

var registry = map[string]RunFunc{}

// Register makes a property scenario available to the worker CLI.
func Register(prop string, f RunFunc) { registry[prop] = f }

// Feat is a helper to count a feature.
func (o *Outcome) Feat(name string) {
	if o.Features == nil {
		o.Features = map[string]int{}
	}
	o.Features[name]++
}

// FeatN adds n to a feature.
func (o *Outcome) FeatN(name string, n int) {
	if o.Features == nil {
		o.Features = map[string]int{}
	}
	o.Features[name] += n
}

// Violate records a violation.
func (o *Outcome) Violate(rule, sig, detail string, a ...any) {
	o.Violations = append(o.Violations, Violation{rule, sig, fmt.Sprintf(detail, a...)})
}

func raceLogSize(prefix string) int64 {
	if prefix == "" {
		return 0
	}
	st, err := os.Stat(fmt.Sprintf("%s.%d", prefix, os.Getpid()))
	if err != nil {
		return 0
	}
	return st.Size()
}

func raceLogTail(prefix string, from int64) string {
	b, err := os.ReadFile(fmt.Sprintf("%s.%d", prefix, os.Getpid()))
	if err != nil || int64(len(b)) <= from {
		return ""
	}
	return string(b[from:])
}

// raceSignature names the two racing accesses by the innermost frame of each
// side whose source file belongs to the scratch copy of goa or to generated
// code (falling back to the innermost frame): stable across runs and processes,
// specific to the racing pair.
func raceSignature(rep string) string {
	type frame struct{ fn, file string }
	var sides [][]frame
	sc := bufio.NewScanner(strings.NewReader(rep))
	sc.Buffer(make([]byte, 1<<20), 1<<20)
	in := false
	for sc.Scan() {
		l := sc.Text()
		switch {
		case strings.HasPrefix(l, "Read at"), strings.HasPrefix(l, "Write at"), strings.HasPrefix(l, "Previous read at"), strings.HasPrefix(l, "Previous write at"),
			strings.HasPrefix(l, "Atomic read at"), strings.HasPrefix(l, "Atomic write at"), strings.HasPrefix(l, "Previous atomic"):
			sides = append(sides, nil)
			in = true
			continue
		case strings.HasPrefix(l, "Goroutine "):
			in = false
			continue
		}
		if !in || len(sides) == 0 || len(sides) > 2 {
			continue
		}
		cur := &sides[len(sides)-1]
		if strings.HasPrefix(l, "      ") { // file line of the previous frame
			if n := len(*cur); n > 0 && (*cur)[n-1].file == "" {
				f := strings.TrimSpace(l)
				if i := strings.LastIndex(f, ":"); i > 0 {
					f = f[:i]
				}
				(*cur)[n-1].file = f
			}
		} else if strings.HasPrefix(l, "  ") {
			f := strings.TrimSpace(l)
			if i := strings.LastIndex(f, "("); i > 0 {
				f = f[:i]
			}
			*cur = append(*cur, frame{fn: f})
		}
	}
	pick := func(fr []frame) string {
		for _, f := range fr {
			for _, mark := range []string{"/repo/", "/gen/"} {
				if i := strings.LastIndex(f.file, mark); i >= 0 && !strings.Contains(f.file, "/verifsim/") {
					fn := f.fn
					if j := strings.LastIndex(fn, "/"); j >= 0 {
						fn = fn[j+1:]
					}
					return f.file[i+len(mark):] + ":" + fn
				}
			}
		}
		if len(fr) > 0 {
			return fr[0].fn
		}
		return "?"
	}
	var fs []string
	for _, sd := range sides {
		if len(fs) < 2 {
			fs = append(fs, pick(sd))
		}
	}
	sort.Strings(fs)
	return "race:" + strings.Join(fs, "|")
}

// Main is the worker command line.
//
//	worker -prop C17 -seed 100 -runs 500 -tier quick -out file.jsonl
//	worker -prop C17 -tape file.json [-lenient]     (one run from a stored tape)
func Main() {
	prop := flag.String("prop", "", "property id")
	seed := flag.Uint64("seed", 1, "first seed")
	runs := flag.Int("runs", 1, "number of runs (seed, seed+stride, ...)")
	stride := flag.Uint64("stride", 1, "seed stride")
	tier := flag.String("tier", "quick", "quick|thorough")
	out := flag.String("out", "", "output file (JSON lines), default stdout")
	tapeFile := flag.String("tape", "", "run once from this tape file ({\"tape\":[draws]} strict, or {\"values\":[ints]} lenient)")
	seedList := flag.String("seeds", "", "comma-separated seeds: run exactly these, in this order, in this one process (process-history replay); only the last outcome is written")
	budget := flag.Duration("budget", 0, "stop starting new runs after this long")
	keepTape := flag.Bool("keeptape", false, "include the tape in every outcome line")
	verbose := flag.Bool("v", false, "verbose")
	args := flag.String("args", "", "k=v,k=v scenario arguments")
	flag.Parse()
	f, ok := registry[*prop]
	if !ok {
		fmt.Fprintf(os.Stderr, "unknown property %q\n", *prop)
		os.Exit(2)
	}
	cfg := Config{Tier: *tier, Verbose: *verbose, Args: map[string]string{}}
	for _, kv := range strings.Split(*args, ",") {
		if i := strings.Index(kv, "="); i > 0 {
			cfg.Args[kv[:i]] = kv[i+1:]
		}
	}
	w := os.Stdout
	if *out != "" {
		var err error
		w, err = os.Create(*out)
		if err != nil {
			fmt.Fprintln(os.Stderr, err)
			os.Exit(2)
		}
	}
	bw := bufio.NewWriterSize(w, 1<<20)
	defer func() { bw.Flush(); w.Close() }()
	enc := json.NewEncoder(bw)

	racePrefix := ""
	for _, kv := range strings.Fields(os.Getenv("GORACE")) {
		if strings.HasPrefix(kv, "log_path=") {
			racePrefix = kv[len("log_path="):]
		}
	}
	// watchdog: a hung run is harness trouble, never a verdict
	progress := make(chan struct{}, 1)
	go func() {
		for {
			select {
			case <-progress:
			case <-time.After(120 * time.Second):
				fmt.Fprintln(os.Stderr, "WATCHDOG: no progress for 120s")
				buf := make([]byte, 1<<20)
				n := runtime.Stack(buf, true)
				os.Stderr.Write(buf[:n])
				os.Exit(2)
			}
		}
	}()

	repeats := map[string]int{}
	one := func(t *verifsim.Tape, seed uint64, keep bool) *Outcome {
		before := raceLogSize(racePrefix)
		// outside a Sim, too, no map iteration in goa or in generated code is left to the Go runtime: the order is a
		// function of the run's seed (a violation that depends on it then replays)
		verifsim.SetIdleMapMode(verifsim.MapSeeded, seed)
		var o *Outcome
		func() {
			defer func() {
				if r := recover(); r != nil {
					o = &Outcome{}
					o.Violate("harness_panic", "harness_panic", "%v\n%s", r, debug.Stack())
				}
			}()
			o = f(t, cfg)
		}()
		o.Seed, o.Prop = seed, *prop
		if rep := raceLogTail(racePrefix, before); rep != "" {
			sig := raceSignature(rep)
			if len(rep) > 6000 {
				rep = rep[:6000]
			}
			o.Violate("data_race", sig, "%s", rep)
		}
		if t.Diverge != "" {
			o.Diverged = t.Diverge
		}
		if keep || len(o.Violations) > 0 {
			o.Tape = t.Log
		}
		if !keep && len(o.Violations) > 0 {
			// a violation class that keeps recurring in this process is reported in full the first
			// few times and then only counted: the tape and the detail text stay out of the output
			fresh := false
			for _, v := range o.Violations {
				k := v.Rule + "\x00" + v.Signature
				repeats[k]++
				if repeats[k] <= 4 || v.Rule == "data_race" {
					fresh = true
				}
			}
			if !fresh {
				o.Tape, o.Sample = nil, nil
				for i := range o.Violations {
					o.Violations[i].Detail = ""
				}
			}
		}
		return o
	}

	if *tapeFile != "" {
		b, err := os.ReadFile(*tapeFile)
		if err != nil {
			fmt.Fprintln(os.Stderr, err)
			os.Exit(2)
		}
		var tf struct {
			Seed   uint64          `json:"seed"`
			Tape   []verifsim.Draw `json:"tape"`
			Values []int           `json:"values"`
		}
		if err := json.Unmarshal(b, &tf); err != nil {
			fmt.Fprintln(os.Stderr, err)
			os.Exit(2)
		}
		var t *verifsim.Tape
		if tf.Values != nil {
			t = verifsim.LenientTape(tf.Values)
		} else {
			t = verifsim.ReplayTape(tf.Tape)
		}
		o := one(t, tf.Seed, true)
		enc.Encode(o)
		return
	}
	if *seedList != "" {
		// a run whose verdict depends on what the process did before (process-wide caches, pools, counters)
		// is replayed with its history: the same seeds, in the same order, in a fresh process
		var last *Outcome
		list := strings.Split(*seedList, ",")
		for i, f := range list {
			s, err := strconv.ParseUint(strings.TrimSpace(f), 10, 64)
			if err != nil {
				fmt.Fprintln(os.Stderr, "bad seed list:", err)
				os.Exit(2)
			}
			last = one(verifsim.NewTape(s), s, i == len(list)-1)
			select {
			case progress <- struct{}{}:
			default:
			}
		}
		if last != nil {
			enc.Encode(last)
		}
		return
	}
	start := time.Now()
	for i := 0; i < *runs; i++ {
		if *budget > 0 && time.Since(start) > *budget {
			break
		}
		s := *seed + uint64(i)**stride
		o := one(verifsim.NewTape(s), s, *keepTape)
		if i >= 3 && len(o.Violations) == 0 && !*verbose {
			o.Sample = nil // keep output small: only the first few runs carry samples
		}
		enc.Encode(o)
		select {
		case progress <- struct{}{}:
		default:
		}
		if o.Tainted {
			// the process may hold a stuck lock; the orchestrator restarts us
			bw.Flush()
			fmt.Fprintf(os.Stderr, "TAINTED after seed %d\n", s)
			os.Exit(3)
		}
	}
	_ = filepath.Base
}
