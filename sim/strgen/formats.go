package strgen

import (
	"fmt"
	"strings"
	"time"

	"goa.design/goa/v3/verifsim"
)

// Constructive generators: each returns a string that is a well-formed
// instance of the format by construction (following the RFC grammar the format
// names, restricted to its uncontroversial core), and corruptions that break a
// mandatory element of that grammar so the result is malformed by construction.
// Neither uses the implementation under test.

type fmtCase struct {
	Format string
	Value  string
	Valid  bool
	How    string // generator / corruption name
}

var allFormats = []string{"date", "date-time", "uuid", "email", "hostname", "ipv4", "ipv6", "ip", "uri", "mac", "cidr", "regexp", "json", "rfc1123"}

const hexd = "0123456789abcdef"
const letters = "abcdefghijklmnopqrstuvwxyz"
const letdig = "abcdefghijklmnopqrstuvwxyz0123456789"

func pickc(t *verifsim.Tape, set string) byte { return set[t.Draw("ch", len(set))] }

func nstr(t *verifsim.Tape, set string, lo, hi int) string {
	n := lo + t.Draw("len", hi-lo+1)
	b := make([]byte, n)
	for i := range b {
		b[i] = pickc(t, set)
	}
	return string(b)
}

func genDate(t *verifsim.Tape) (y, m, d int) {
	return 1 + t.Draw("year", 9999), 1 + t.Draw("month", 12), 1 + t.Draw("day", 28)
}

func label1035(t *verifsim.Tape) string {
	// <letter> [ [ <ldh-str> ] <let-dig> ]
	n := t.Draw("lablen", 8)
	if t.Draw("longlabel", 20) == 0 {
		n = 62
	}
	if n == 0 {
		return string(pickc(t, letters))
	}
	b := []byte{pickc(t, letters)}
	for i := 0; i < n-1; i++ {
		b = append(b, pickc(t, letdig+"-"))
	}
	b = append(b, pickc(t, letdig))
	return string(b)
}

func hostname(t *verifsim.Tape) string {
	n := 1 + t.Draw("labels", 4)
	ls := make([]string, n)
	for i := range ls {
		ls[i] = label1035(t)
	}
	h := strings.Join(ls, ".")
	for len(h) > 253 {
		ls = ls[1:]
		h = strings.Join(ls, ".")
	}
	return h
}

func ipv4(t *verifsim.Tape) string {
	return fmt.Sprintf("%d.%d.%d.%d", t.Draw("oct", 256), t.Draw("oct", 256), t.Draw("oct", 256), t.Draw("oct", 256))
}

func ipv6(t *verifsim.Tape) string {
	g := make([]string, 8)
	for i := range g {
		g[i] = fmt.Sprintf("%x", t.Draw("hextet", 65536))
	}
	switch t.Draw("v6form", 6) {
	case 4: // RFC 4291 2.2(3): the last 32 bits in dotted-quad form (IPv4-mapped / -compatible / NAT64)
		return []string{"::ffff:", "::", "64:ff9b::", "0:0:0:0:0:ffff:"}[t.Draw("v6v4", 4)] + ipv4(t)
	case 5:
		return strings.ToUpper(strings.Join(g, ":"))
	case 0:
		return strings.Join(g, ":")
	case 1: // compress a middle run of groups
		i := 1 + t.Draw("v6at", 5)
		return strings.Join(g[:i], ":") + "::" + strings.Join(g[i+2:], ":")
	case 2:
		return "::" + strings.Join(g[:1+t.Draw("v6tail", 6)], ":")
	default:
		return strings.Join(g[:1+t.Draw("v6head", 6)], ":") + "::"
	}
}

func jsonDoc(t *verifsim.Tape, depth int) string {
	k := t.Draw("json", 7)
	if depth <= 0 && k >= 5 {
		k = t.Draw("jsonleaf", 5)
	}
	switch k {
	case 0:
		return "null"
	case 1:
		return []string{"true", "false"}[t.Draw("b", 2)]
	case 2:
		return fmt.Sprintf("%d", t.Draw("n", 2000)-1000)
	case 3:
		return fmt.Sprintf("%d.%de%d", t.Draw("n", 100), t.Draw("n", 100), t.Draw("n", 10))
	case 4:
		return `"` + nstr(t, letdig+" _-", 0, 6) + `"`
	case 5:
		n := t.Draw("arr", 3)
		el := make([]string, n)
		for i := range el {
			el[i] = jsonDoc(t, depth-1)
		}
		return "[" + strings.Join(el, ",") + "]"
	default:
		n := t.Draw("obj", 3)
		el := make([]string, n)
		for i := range el {
			el[i] = fmt.Sprintf(`"k%d":%s`, i, jsonDoc(t, depth-1))
		}
		return "{" + strings.Join(el, ", ") + "}"
	}
}

func validInstance(t *verifsim.Tape, f string) (string, string) {
	switch f {
	case "date":
		y, m, d := genDate(t)
		return fmt.Sprintf("%04d-%02d-%02d", y, m, d), "ymd"
	case "date-time":
		y, m, d := genDate(t)
		s := fmt.Sprintf("%04d-%02d-%02dT%02d:%02d:%02d", y, m, d, t.Draw("h", 24), t.Draw("mi", 60), t.Draw("s", 60))
		if t.Draw("frac", 3) == 0 {
			s += "." + nstr(t, "0123456789", 1, 6)
		}
		if t.Draw("zone", 2) == 0 {
			return s + "Z", "utc"
		}
		return s + fmt.Sprintf("%c%02d:%02d", "+-"[t.Draw("sign", 2)], t.Draw("zh", 14), []int{0, 30, 45}[t.Draw("zm", 3)]), "offset"
	case "uuid":
		// RFC 4122: 8-4-4-4-12 hex, variant bits 10xx
		u := nstr(t, hexd, 8, 8) + "-" + nstr(t, hexd, 4, 4) + "-" + string("12345"[t.Draw("ver", 5)]) + nstr(t, hexd, 3, 3) + "-" +
			string("89ab"[t.Draw("var", 4)]) + nstr(t, hexd, 3, 3) + "-" + nstr(t, hexd, 12, 12)
		if t.Draw("upper", 4) == 0 {
			return strings.ToUpper(u), "canonical-upper"
		}
		return u, "canonical"
	case "email":
		local := nstr(t, letdig, 1, 8)
		if t.Draw("dot", 3) == 0 {
			local += "." + nstr(t, letdig, 1, 5)
		}
		if t.Draw("plus", 4) == 0 {
			local += "+" + nstr(t, letdig, 1, 4)
		}
		return local + "@" + hostname(t) + "." + nstr(t, letters, 2, 4), "addr-spec"
	case "hostname":
		return hostname(t), "rfc1035"
	case "ipv4":
		return ipv4(t), "dotted-quad"
	case "ipv6":
		return ipv6(t), "hextets"
	case "ip":
		if t.Draw("ipkind", 2) == 0 {
			return ipv4(t), "v4"
		}
		return ipv6(t), "v6"
	case "uri":
		s := []string{"http", "https", "ftp", "ws"}[t.Draw("scheme", 4)] + "://" + hostname(t)
		if t.Draw("port", 3) == 0 {
			s += fmt.Sprintf(":%d", 1+t.Draw("portn", 65535))
		}
		n := t.Draw("segs", 4)
		for i := 0; i < n; i++ {
			s += "/" + nstr(t, letdig+"-._~", 1, 6)
		}
		if n == 0 {
			s += "/"
		}
		if t.Draw("query", 2) == 0 {
			s += "?" + nstr(t, letters, 1, 4) + "=" + nstr(t, letdig, 0, 5)
		}
		return s, "hier"
	case "mac":
		n := []int{6, 8}[t.Draw("maclen", 2)]
		sep := ":-"[t.Draw("macsep", 2)]
		g := make([]string, n)
		for i := range g {
			g[i] = nstr(t, hexd, 2, 2)
		}
		return strings.Join(g, string(sep)), fmt.Sprintf("eui%d", n*8)
	case "cidr":
		if t.Draw("ipkind", 2) == 0 {
			return fmt.Sprintf("%s/%d", ipv4(t), t.Draw("plen", 33)), "v4"
		}
		return fmt.Sprintf("%s/%d", ipv6(t), t.Draw("plen", 129)), "v6"
	case "regexp":
		return genRegex(t, 2).String(), "grammar"
	case "json":
		return jsonDoc(t, 2), "doc"
	case "rfc1123":
		y, m, d := genDate(t)
		if y < 1000 {
			y += 1000
		}
		tm := time.Date(y, time.Month(m), d, t.Draw("h", 24), t.Draw("mi", 60), t.Draw("s", 60), 0, time.UTC)
		wd := [...]string{"Sun", "Mon", "Tue", "Wed", "Thu", "Fri", "Sat"}[tm.Weekday()]
		mo := [...]string{"Jan", "Feb", "Mar", "Apr", "May", "Jun", "Jul", "Aug", "Sep", "Oct", "Nov", "Dec"}[m-1]
		return fmt.Sprintf("%s, %02d %s %04d %02d:%02d:%02d %s", wd, d, mo, y, tm.Hour(), tm.Minute(), tm.Second(), []string{"UTC", "GMT"}[t.Draw("zone", 2)]), "fixed"
	}
	panic("unknown format " + f)
}

// corrupt returns a malformed-by-construction variant of a valid instance.
func corrupt(t *verifsim.Tape, f, v string) (string, string) {
	repl := func(old, new string) string { return strings.Replace(v, old, new, 1) }
	switch f {
	case "date":
		switch t.Draw("corr", 5) {
		case 0:
			return v[:5] + "13" + v[7:], "month13"
		case 1:
			return v[:8] + "32", "day32"
		case 2:
			return repl("-", "/"), "slash"
		case 3:
			return v[:9], "short-day"
		default:
			return v + "T", "trailing"
		}
	case "date-time":
		switch t.Draw("corr", 5) {
		case 0:
			return v[:5] + "13" + v[7:], "month13"
		case 1:
			return v[:11] + "25" + v[13:], "hour25"
		case 2:
			return repl("T", " "), "space-for-T"
		case 3:
			return v[:19], "no-zone"
		default:
			return v[:14] + "61" + v[16:], "minute61"
		}
	case "uuid":
		switch t.Draw("corr", 6) {
		case 4:
			// well-formed, but not an RFC 4122 UUID: variant bits other than 10xx (NCS, Microsoft, reserved)
			return v[:19] + string("01234567cdefCDEF"[t.Draw("variant", 16)]) + v[20:], "non-rfc4122-variant"
		case 5:
			return "00000000-0000-0000-0000-000000000000", "nil-uuid"
		case 0:
			return v[:3] + "g" + v[4:], "non-hex"
		case 1:
			return v[:35], "short"
		case 2:
			return v[:8] + "x" + v[9:], "bad-separator"
		default:
			return v + "0", "long"
		}
	case "email":
		switch t.Draw("corr", 4) {
		case 0:
			return repl("@", ""), "no-at"
		case 1:
			return repl("@", "@@"), "double-at"
		case 2:
			return v[strings.Index(v, "@"):], "empty-local"
		default:
			return v[:strings.Index(v, "@")+1], "empty-domain"
		}
	case "hostname":
		switch t.Draw("corr", 6) {
		case 0:
			return "-" + v, "leading-hyphen"
		case 1:
			return v + "-", "trailing-hyphen"
		case 2:
			i := t.Draw("at", len(v))
			return v[:i] + "_" + v[i:], "underscore"
		case 3:
			i := t.Draw("at", len(v))
			return v[:i] + " " + v[i:], "space"
		case 4:
			return v + "..x", "empty-label"
		default:
			i := t.Draw("at", len(v))
			return v[:i] + "$%" + v[i:], "punct"
		}
	case "ipv4":
		switch t.Draw("corr", 5) {
		case 0:
			return v[:strings.LastIndex(v, ".")], "three-octets"
		case 1:
			return v + ".1", "five-octets"
		case 2:
			return "256" + v[strings.Index(v, "."):], "octet256"
		case 3:
			return repl(".", ":"), "colon"
		default:
			return v + ".", "trailing-dot"
		}
	case "ipv6":
		switch t.Draw("corr", 6) {
		case 4: // a zone identifier (RFC 4007) is not part of an address literal
			return v + "%" + []string{"eth0", "1", "lo"}[t.Draw("zone", 3)], "zone-suffix"
		case 5:
			return v + "/64", "prefix-length"
		case 0:
			return "g" + v, "non-hex"
		case 1:
			return v + ":1:2:3:4:5:6:7:8", "too-many-groups"
		case 2:
			return ":::" + strings.TrimLeft(v, ":"), "triple-colon"
		default:
			return "12345" + v, "five-digit-group"
		}
	case "ip":
		switch t.Draw("corr", 4) {
		case 3:
			if strings.Contains(v, ":") {
				return v + "%eth0", "zone-suffix"
			}
			return v + ":80", "port"
		case 0:
			return v + "/", "trailing-slash"
		case 1:
			return "x" + v, "letter"
		default:
			return v + " ", "trailing-space"
		}
	case "uri":
		switch t.Draw("corr", 4) {
		case 0: // a percent sign not followed by two hex digits, inside the path
			q := strings.Index(v, "?")
			if q < 0 {
				q = len(v)
			}
			return v[:q] + "%zz" + v[q:], "bad-escape-in-path"
		case 1: // a scheme must start with a letter, and a relative reference
			// may not have a colon in its first segment
			return "1" + v, "scheme-starts-with-digit"
		case 2:
			return repl("://", "://a b"), "space-in-host"
		default:
			return "", "empty"
		}
	case "mac":
		switch t.Draw("corr", 4) {
		case 0:
			return v[:len(v)-3], "odd-group-count"
		case 1:
			return "g" + v[1:], "non-hex"
		case 2:
			return v[:len(v)-1], "short-group"
		default:
			return v[:2] + "." + v[3:], "mixed-separator"
		}
	case "cidr":
		switch t.Draw("corr", 4) {
		case 0:
			return v[:strings.Index(v, "/")], "no-prefix"
		case 1:
			return v[:strings.Index(v, "/")] + "/129", "prefix-too-long"
		case 2:
			return v[:strings.Index(v, "/")] + "/x", "prefix-not-number"
		default:
			return "/" + v, "leading-slash"
		}
	case "regexp":
		switch t.Draw("corr", 5) {
		case 0:
			return "(" + v, "unclosed-group"
		case 1:
			return v + "[a", "unclosed-class"
		case 2:
			return "*" + v, "leading-star"
		case 3:
			return v + `\`, "trailing-backslash"
		default:
			return v + "a{2,1}", "bad-repeat"
		}
	case "json":
		switch t.Draw("corr", 8) {
		case 5:
			return v + []string{"}", "]", " ]", "}}", "] x"}[t.Draw("closer", 5)], "stray-closer"
		case 6:
			return v + " " + v, "second-value"
		case 7:
			return v + ",", "trailing-comma-after-value"
		case 0:
			return "{" + v, "unclosed-object"
		case 1:
			return "[" + v + ",]", "trailing-comma"
		case 2:
			return v + " x", "trailing-garbage"
		case 3:
			return "", "empty"
		default:
			return "{'a':" + v + "}", "single-quotes"
		}
	case "rfc1123":
		switch t.Draw("corr", 5) {
		case 0:
			return v[:8] + "Foo" + v[11:], "bad-month"
		case 1:
			return strings.Replace(v, ",", "", 1), "no-comma"
		case 2:
			return v[:17] + "25" + v[19:], "hour25"
		case 3:
			return v[:25], "no-zone"
		default:
			return "Xyz" + v[3:], "bad-weekday"
		}
	}
	panic("unknown format " + f)
}

func genFormatCase(t *verifsim.Tape) fmtCase {
	f := allFormats[t.Draw("format", len(allFormats))]
	v, how := validInstance(t, f)
	if t.Draw("corrupt", 2) == 0 {
		return fmtCase{f, v, true, how}
	}
	c, chow := corrupt(t, f, v)
	return fmtCase{f, c, false, chow}
}
