package strgen

import (
	"strings"

	"goa.design/goa/v3/verifsim"
)

// A small RE2 grammar: literals, classes, dot, concatenation, alternation,
// repetition, groups, optional anchors. Every node can print itself and
// produce a string it matches.

type rx interface {
	String() string
	Sample(t *verifsim.Tape) string
}

type rxLit string
type rxClass struct{ lo, hi byte }
type rxDot struct{}
type rxCat []rx
type rxAlt []rx
type rxRep struct {
	x        rx
	min, max int // max<0: unbounded
}
type rxAnch struct {
	x          rx
	start, end bool
}

const rxAlphabet = "abcxyz019_-"

func (l rxLit) String() string {
	var b strings.Builder
	for _, c := range string(l) {
		if strings.ContainsRune(`\.+*?()|[]{}^$-`, c) {
			b.WriteByte('\\')
		}
		b.WriteRune(c)
	}
	return b.String()
}
func (l rxLit) Sample(*verifsim.Tape) string { return string(l) }

func (c rxClass) String() string { return "[" + string(c.lo) + "-" + string(c.hi) + "]" }
func (c rxClass) Sample(t *verifsim.Tape) string {
	return string(c.lo + byte(t.Draw("cls", int(c.hi-c.lo)+1)))
}
func (rxDot) String() string                   { return "." }
func (rxDot) Sample(t *verifsim.Tape) string { return string(pickc(t, rxAlphabet)) }
func (c rxCat) String() string {
	var b strings.Builder
	for _, x := range c {
		if _, isAlt := x.(rxAlt); isAlt {
			b.WriteString("(?:" + x.String() + ")")
		} else {
			b.WriteString(x.String())
		}
	}
	return b.String()
}
func (c rxCat) Sample(t *verifsim.Tape) string {
	var b strings.Builder
	for _, x := range c {
		b.WriteString(x.Sample(t))
	}
	return b.String()
}
func (a rxAlt) String() string {
	s := make([]string, len(a))
	for i, x := range a {
		s[i] = x.String()
	}
	return strings.Join(s, "|")
}
func (a rxAlt) Sample(t *verifsim.Tape) string { return a[t.Draw("alt", len(a))].Sample(t) }
func (r rxRep) String() string {
	in := r.x.String()
	switch r.x.(type) {
	case rxClass, rxDot:
	case rxLit:
		if len(r.x.(rxLit)) != 1 {
			in = "(" + in + ")"
		}
	default:
		in = "(" + in + ")"
	}
	switch {
	case r.min == 0 && r.max < 0:
		return in + "*"
	case r.min == 1 && r.max < 0:
		return in + "+"
	case r.min == 0 && r.max == 1:
		return in + "?"
	case r.max < 0:
		return in + "{" + itoa(r.min) + ",}"
	case r.min == r.max:
		return in + "{" + itoa(r.min) + "}"
	}
	return in + "{" + itoa(r.min) + "," + itoa(r.max) + "}"
}
func (r rxRep) Sample(t *verifsim.Tape) string {
	max := r.max
	if max < 0 {
		max = r.min + 3
	}
	n := r.min + t.Draw("rep", max-r.min+1)
	var b strings.Builder
	for i := 0; i < n; i++ {
		b.WriteString(r.x.Sample(t))
	}
	return b.String()
}
func (a rxAnch) String() string {
	s := a.x.String()
	if _, isAlt := a.x.(rxAlt); isAlt && (a.start || a.end) {
		s = "(?:" + s + ")"
	}
	if a.start {
		s = "^" + s
	}
	if a.end {
		s += "$"
	}
	return s
}
func (a rxAnch) Sample(t *verifsim.Tape) string { return a.x.Sample(t) }

func itoa(n int) string {
	if n == 0 {
		return "0"
	}
	s := ""
	for n > 0 {
		s = string(rune('0'+n%10)) + s
		n /= 10
	}
	return s
}

func genRx(t *verifsim.Tape, depth int) rx {
	k := t.Draw("rx", 8)
	if depth <= 0 && k >= 3 {
		k = t.Draw("rxleaf", 3)
	}
	switch k {
	case 0:
		return rxLit(nstr(t, rxAlphabet+".+", 1, 3))
	case 1:
		lo := "a0x"[t.Draw("lo", 3)]
		span := map[byte]int{'a': 25, '0': 9, 'x': 2}[lo]
		return rxClass{lo, lo + byte(1+t.Draw("span", span))}
	case 2:
		return rxDot{}
	case 3, 4:
		n := 2 + t.Draw("cat", 2)
		c := make(rxCat, n)
		for i := range c {
			c[i] = genRx(t, depth-1)
		}
		return c
	case 5:
		n := 2 + t.Draw("altn", 2)
		a := make(rxAlt, n)
		for i := range a {
			a[i] = genRx(t, depth-1)
		}
		return a
	default:
		x := genRx(t, depth-1)
		if _, nested := x.(rxRep); nested {
			x = rxCat{x, rxLit("a")}
		}
		switch t.Draw("repk", 5) {
		case 0:
			return rxRep{x, 0, -1}
		case 1:
			return rxRep{x, 1, -1}
		case 2:
			return rxRep{x, 0, 1}
		case 3:
			m := t.Draw("repm", 3)
			return rxRep{x, m, m + t.Draw("repn", 3)}
		default:
			return rxRep{x, 1 + t.Draw("repm", 2), -1}
		}
	}
}

// genRegex returns a pattern, anchored at either end with probability 1/2 each.
func genRegex(t *verifsim.Tape, depth int) rx {
	return rxAnch{genRx(t, depth), t.Draw("anch", 2) == 0, t.Draw("anch", 2) == 0}
}
