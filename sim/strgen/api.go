// Package strgen holds the string generators shared by the engines: constructive
// per-format instances and corruptions, and a small RE2 grammar with samples.
package strgen

import "goa.design/goa/v3/verifsim"

// Rx is a generated regular expression that can print itself and produce a
// string it matches.
type Rx = rx

// FmtCase is a format instance with its verdict by construction.
type FmtCase = fmtCase

// AllFormats lists the format names.
var AllFormats = allFormats

const (
	Letters = letters
	Letdig  = letdig
	Hexd    = hexd
)

func Nstr(t *verifsim.Tape, set string, lo, hi int) string { return nstr(t, set, lo, hi) }
func Pickc(t *verifsim.Tape, set string) byte              { return pickc(t, set) }
func GenRegex(t *verifsim.Tape, depth int) Rx              { return genRegex(t, depth) }
func GenFormatCase(t *verifsim.Tape) FmtCase               { return genFormatCase(t) }
func ValidInstance(t *verifsim.Tape, f string) (string, string) {
	return validInstance(t, f)
}
func Corrupt(t *verifsim.Tape, f, v string) (string, string) { return corrupt(t, f, v) }

// RxAlphabet is the alphabet regex samples are drawn from.
const RxAlphabet = rxAlphabet

// PrefixClass returns the anchored pattern ^<prefix>[a-c]$ (cheap, distinct per prefix).
func PrefixClass(prefix string) Rx {
	return rxAnch{rxCat{rxLit(prefix), rxClass{'a', 'c'}}, true, true}
}

// AnchoredLiteral is the pattern "^lit$" (either anchor optional).
func AnchoredLiteral(lit string, start, end bool) Rx { return rxAnch{rxLit(lit), start, end} }
