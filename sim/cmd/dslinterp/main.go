// dslinterp feeds a design spec to goa through its public DSL, evaluates it and
// runs the code generators, exactly as a user's design package would.
//
//	dslinterp -spec d.json -out dir [-cmd gen]
//
// exit 0: generated; exit 3: goa rejected the design (message on stderr);
// exit 4: a generator failed or panicked; exit 2: harness trouble.
package main

import (
	"flag"
	"fmt"
	"os"
	"runtime/debug"
	"strings"

	"goa.design/goa/v3/codegen/generator"
	"goa.design/goa/v3/eval"
	"verif/sim/dslbuild"
	"verif/sim/spec"
)

func main() {
	specPath := flag.String("spec", "", "design spec (JSON)")
	out := flag.String("out", "", "output directory (a Go module root or below)")
	cmd := flag.String("cmd", "gen", "gen | example")
	flag.Parse()
	d, err := spec.Load(*specPath)
	if err != nil {
		fmt.Fprintln(os.Stderr, "dslinterp:", err)
		os.Exit(2)
	}
	func() {
		defer func() {
			if r := recover(); r != nil {
				fmt.Fprintf(os.Stderr, "dslinterp: DSL panicked: %v\n%s", r, debug.Stack())
				os.Exit(4)
			}
		}()
		dslbuild.Build(d)
	}()
	if err := eval.RunDSL(); err != nil {
		fmt.Fprintf(os.Stderr, "REJECTED: %v\n", err)
		os.Exit(3)
	}
	func() {
		defer func() {
			if r := recover(); r != nil {
				fmt.Fprintf(os.Stderr, "dslinterp: generator panicked: %v\n%s", r, debug.Stack())
				os.Exit(4)
			}
		}()
		for _, c := range strings.Split(*cmd, ",") {
			outputs, err := generator.Generate(*out, c)
			if err != nil {
				fmt.Fprintf(os.Stderr, "dslinterp: generator failed: %v\n", err)
				os.Exit(4)
			}
			for _, o := range outputs {
				fmt.Println(o)
			}
		}
	}()
}
