// designgen draws design specs from a seed.
//
//	designgen -seed 7 -n 24 -out dir        writes dir/d0.json ... (one tape per design: seed*1000+i)
package main

import (
	"encoding/json"
	"flag"
	"fmt"
	"os"
	"path/filepath"

	"goa.design/goa/v3/verifsim"
	"verif/sim/gen"
	"verif/sim/spec"
)

func main() {
	seed := flag.Uint64("seed", 1, "batch seed")
	n := flag.Int("n", 16, "number of designs")
	out := flag.String("out", ".", "output directory")
	focus := flag.String("focus", "", "bias towards a topic: views | security")
	flag.Parse()
	os.MkdirAll(*out, 0755)
	// 4n candidates (one tape each), of which n are kept: greedily, the candidate that adds most structural
	// feature combinations (gen.StructuralFeatures) the batch does not have yet; ties go to the lower index.
	// Without a focus, one design in eight is drawn with focus "shared" (few attribute names, many patterns:
	// process-wide state keyed by names or patterns collides across designs of one batch).
	type cand struct {
		d     *spec.Design
		feats []string
	}
	var pool, sharedPool []cand
	for i := 0; i < 4**n; i++ {
		f := *focus
		if f == "" && i%8 == 7 {
			f = "shared"
		}
		d := gen.GenDesign(verifsim.NewTape(*seed*1000+uint64(i)), "c", f)
		c := cand{d, append(gen.StructuralFeatures(d), d.Features...)}
		if f == "shared" {
			sharedPool = append(sharedPool, c)
		} else {
			pool = append(pool, c)
		}
	}
	have := map[string]bool{}
	pick := func(from []cand) (cand, []cand) {
		best, bestGain := 0, -1
		for i, c := range from {
			gain := 0
			for _, f := range c.feats {
				if !have[f] {
					gain++
				}
			}
			if gain > bestGain {
				best, bestGain = i, gain
			}
		}
		c := from[best]
		for _, f := range c.feats {
			have[f] = true
		}
		return c, append(append([]cand{}, from[:best]...), from[best+1:]...)
	}
	var chosen []*spec.Design
	for i := 0; i < *n; i++ {
		var c cand
		switch {
		case *focus == "" && i%8 == 7 && len(sharedPool) > 0:
			c, sharedPool = pick(sharedPool)
		case i%2 == 1:
			// every other slot takes the next candidate as drawn: greedy choice favours large designs, and
			// small ones (one feature alone, nothing else in the way) find things large ones hide
			c, pool = pool[0], pool[1:]
			for _, f := range c.feats {
				have[f] = true
			}
		default:
			c, pool = pick(pool)
		}
		chosen = append(chosen, c.d)
	}
	if *focus == "" && *n >= 8 {
		chosen[*n-1] = gen.MatrixDesign("m") // the one design that is enumerated, not drawn
	}
	for i, d := range chosen {
		name := fmt.Sprintf("d%d", i)
		d.Name = name
		b, _ := json.MarshalIndent(d, "", " ")
		if err := os.WriteFile(filepath.Join(*out, name+".json"), b, 0644); err != nil {
			fmt.Fprintln(os.Stderr, err)
			os.Exit(2)
		}
	}
}
