// designgen draws design specs from a seed.
//
//	designgen -seed 7 -n 24 -out dir        writes dir/d0.json ... (one tape per design: seed*1000+i)
package main

import (
	"encoding/json"
	"flag"
	"fmt"
	"os"
	"path/filepath"

	"goa.design/goa/v3/verifsim"
	"verif/sim/gen"
)

func main() {
	seed := flag.Uint64("seed", 1, "batch seed")
	n := flag.Int("n", 16, "number of designs")
	out := flag.String("out", ".", "output directory")
	focus := flag.String("focus", "", "bias towards a topic: views | security")
	flag.Parse()
	os.MkdirAll(*out, 0755)
	for i := 0; i < *n; i++ {
		name := fmt.Sprintf("d%d", i)
		t := verifsim.NewTape(*seed*1000 + uint64(i))
		d := gen.GenDesign(t, name, *focus)
		b, _ := json.MarshalIndent(d, "", " ")
		if err := os.WriteFile(filepath.Join(*out, name+".json"), b, 0644); err != nil {
			fmt.Fprintln(os.Stderr, err)
			os.Exit(2)
		}
	}
}
