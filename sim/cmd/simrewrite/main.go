// simrewrite inserts the simulator's seams into a scratch copy of a Go module
// by type-directed, purely mechanical rewriting (DESIGN.md section 3.1).
//
//	simrewrite -dir <module root> [-fs codegen,codegen/generator,cmd/goa] [-report out.json] [patterns...]
//
// Exit status 2 means the tree could not be processed ("build trouble").
package main

import (
	"encoding/json"
	"flag"
	"fmt"
	"go/ast"
	"go/format"
	"go/token"
	"go/types"
	"os"
	"path/filepath"
	"sort"
	"strings"

	"golang.org/x/tools/go/ast/astutil"
	"golang.org/x/tools/go/packages"
)

const simPath = "goa.design/goa/v3/verifsim"
const simName = "verifsim"

type report struct {
	Files            int            `json:"files_rewritten"`
	Sites            map[string]int `json:"sites"`
	UncontrolledList []string       `json:"uncontrolled_sites"`
}

var rep = report{Sites: map[string]int{}}

func fatal(f string, a ...any) {
	fmt.Fprintf(os.Stderr, "simrewrite: "+f+"\n", a...)
	os.Exit(2)
}

func sel(name string) ast.Expr {
	return &ast.SelectorExpr{X: ast.NewIdent(simName), Sel: ast.NewIdent(name)}
}
func call(name string, args ...ast.Expr) *ast.CallExpr {
	return &ast.CallExpr{Fun: sel(name), Args: args}
}
func str(s string) ast.Expr {
	return &ast.BasicLit{Kind: token.STRING, Value: fmt.Sprintf("%q", s)}
}

type rewriter struct {
	pkg    *packages.Package
	info   *types.Info
	fs     bool
	fset   *token.FileSet
	dirty  bool
	tmpSeq int
}

func (r *rewriter) count(k string) { rep.Sites[k]++; r.dirty = true }

func (r *rewriter) pos(n ast.Node) string {
	p := r.fset.Position(n.Pos())
	return fmt.Sprintf("%s:%d", filepath.Base(p.Filename), p.Line)
}

func orderedKey(t types.Type) bool {
	switch u := t.Underlying().(type) {
	case *types.Basic:
		return u.Info()&(types.IsString|types.IsInteger|types.IsFloat|types.IsBoolean) != 0
	case *types.Interface:
		// dynamic keys are ordered by kind, then value / printed form; canonical
		// as long as the dynamic values are not pointers (true for goa's
		// map[any]any design values: strings, numbers, booleans)
		return true
	case *types.Struct:
		for i := 0; i < u.NumFields(); i++ {
			if !orderedKey(u.Field(i).Type()) {
				return false
			}
		}
		return true
	}
	return false
}

// pkgFunc returns (pkgpath, name) when e denotes a package-level object.
func (r *rewriter) pkgObj(e ast.Expr) (string, string, types.Object) {
	s, ok := e.(*ast.SelectorExpr)
	if !ok {
		return "", "", nil
	}
	if _, isSel := r.info.Selections[s]; isSel {
		return "", "", nil
	}
	obj := r.info.Uses[s.Sel]
	if obj == nil || obj.Pkg() == nil {
		return "", "", nil
	}
	if obj.Parent() != obj.Pkg().Scope() {
		return "", "", nil
	}
	return obj.Pkg().Path(), obj.Name(), obj
}

// method returns the full name of the method a call invokes, with the receiver
// expression (address taken if needed), for calls through a selection.
func (r *rewriter) method(c *ast.CallExpr) (string, ast.Expr) {
	s, ok := c.Fun.(*ast.SelectorExpr)
	if !ok {
		return "", nil
	}
	selection := r.info.Selections[s]
	if selection == nil || selection.Kind() != types.MethodVal {
		return "", nil
	}
	fn, ok := selection.Obj().(*types.Func)
	if !ok {
		return "", nil
	}
	full := fn.FullName()
	if !strings.Contains(full, "sync") {
		return "", nil
	}
	e := s.X
	t := selection.Recv()
	idx := selection.Index()
	for _, i := range idx[:len(idx)-1] {
		tt := t
		if p, ok := tt.Underlying().(*types.Pointer); ok {
			tt = p.Elem()
		}
		st, ok := tt.Underlying().(*types.Struct)
		if !ok {
			return "", nil
		}
		f := st.Field(i)
		e = &ast.SelectorExpr{X: e, Sel: ast.NewIdent(f.Name())}
		t = f.Type()
	}
	if _, isIface := t.Underlying().(*types.Interface); isIface {
		return full, e
	}
	if _, isPtr := t.Underlying().(*types.Pointer); !isPtr {
		e = &ast.UnaryExpr{Op: token.AND, X: e}
	}
	return full, e
}

// syncCall maps a call to its shim replacement, or returns nil.
func (r *rewriter) syncCall(c *ast.CallExpr) ast.Expr {
	full, recv := r.method(c)
	switch full {
	case "(*sync.Mutex).Lock", "(*sync.RWMutex).Lock", "(sync.Locker).Lock":
		r.count("lock")
		return call("Lock", recv)
	case "(*sync.Mutex).Unlock", "(*sync.RWMutex).Unlock", "(sync.Locker).Unlock":
		r.count("unlock")
		return call("Unlock", recv)
	case "(*sync.RWMutex).RLock":
		r.count("rlock")
		return call("RLock", recv)
	case "(*sync.RWMutex).RUnlock":
		r.count("runlock")
		return call("RUnlock", recv)
	case "(*sync.Once).Do":
		r.count("once")
		return call("OnceDo", append([]ast.Expr{recv}, c.Args...)...)
	case "(*sync.WaitGroup).Add":
		r.count("wg")
		return call("WGAdd", append([]ast.Expr{recv}, c.Args...)...)
	case "(*sync.WaitGroup).Done":
		r.count("wg")
		return call("WGDone", recv)
	case "(*sync.WaitGroup).Wait":
		r.count("wg")
		return call("WGWait", recv)
	}
	return nil
}

// isPointCall reports calls that become plain scheduling points: atomics and
// sync.Map operations.
func (r *rewriter) isPointCall(c *ast.CallExpr) string {
	if full, _ := r.method(c); full != "" {
		if strings.HasPrefix(full, "(*sync/atomic.") {
			return "atomic"
		}
		if strings.HasPrefix(full, "(*sync.Map).") {
			return "syncmap"
		}
		return ""
	}
	if p, _, obj := r.pkgObj(c.Fun); p == "sync/atomic" {
		if _, ok := obj.(*types.Func); ok {
			return "atomic"
		}
	}
	return ""
}

// headerPoint looks for point calls in the part of a statement that executes
// before any nested block, not descending into function literals.
func (r *rewriter) headerPoint(s ast.Stmt) string {
	var parts []ast.Node
	switch n := s.(type) {
	case *ast.IfStmt:
		parts = []ast.Node{n.Init, n.Cond}
	case *ast.ForStmt:
		parts = []ast.Node{n.Init, n.Cond}
	case *ast.SwitchStmt:
		parts = []ast.Node{n.Init, n.Tag}
	case *ast.TypeSwitchStmt:
		parts = []ast.Node{n.Init, n.Assign}
	case *ast.RangeStmt:
		parts = []ast.Node{n.X}
	case *ast.ExprStmt, *ast.AssignStmt, *ast.ReturnStmt, *ast.IncDecStmt, *ast.DeclStmt, *ast.SendStmt, *ast.DeferStmt:
		parts = []ast.Node{n}
	default:
		return ""
	}
	found := ""
	for _, p := range parts {
		if p == nil || (p != nil && isNilNode(p)) {
			continue
		}
		ast.Inspect(p, func(x ast.Node) bool {
			if found != "" {
				return false
			}
			switch c := x.(type) {
			case *ast.FuncLit:
				return false
			case *ast.CallExpr:
				if k := r.isPointCall(c); k != "" {
					found = k
					return false
				}
			}
			return true
		})
	}
	return found
}

func isNilNode(n ast.Node) bool {
	switch v := n.(type) {
	case ast.Stmt:
		return v == nil
	case ast.Expr:
		return v == nil
	}
	return false
}

var timeFuncs = map[string]string{"Now": "Now", "Since": "Since", "Until": "Until", "Sleep": "Sleep"}
var mrandFuncs = map[string]string{"Intn": "Intn", "Int63n": "Int63n", "Int31n": "Int31n", "Float64": "Float64", "Int": "Int", "Read": "RandRead"}
var osFuncs = map[string]string{"OpenFile": "OpenFile", "Create": "Create", "Open": "Open", "CreateTemp": "CreateTemp",
	"MkdirAll": "MkdirAll", "MkdirTemp": "MkdirTemp", "WriteFile": "WriteFile", "ReadFile": "ReadFile", "Stat": "Stat",
	"Remove": "Remove", "RemoveAll": "RemoveAll", "Rename": "Rename"}

func (r *rewriter) file(f *ast.File) {
	astutil.Apply(f, func(c *astutil.Cursor) bool {
		switch n := c.Node().(type) {
		case *ast.RangeStmt:
			t := r.info.TypeOf(n.X)
			if t == nil {
				return true
			}
			if m, ok := t.Underlying().(*types.Map); ok {
				if orderedKey(m.Key()) {
					n.X = call("Range", n.X)
					r.count("maprange")
				} else {
					rep.UncontrolledList = append(rep.UncontrolledList, "maprange "+r.pos(n)+" key "+m.Key().String())
				}
			}
		case *ast.SelectStmt:
			rep.UncontrolledList = append(rep.UncontrolledList, "select "+r.pos(n))
		case *ast.SendStmt:
			rep.UncontrolledList = append(rep.UncontrolledList, "send "+r.pos(n))
		}
		// scheduling points before statements that contain atomics / sync.Map ops
		if s, ok := c.Node().(ast.Stmt); ok && c.Index() >= 0 {
			if k := r.headerPoint(s); k != "" {
				c.InsertBefore(&ast.ExprStmt{X: call("Yield", str(k))})
				r.count(k)
			}
		}
		return true
	}, func(c *astutil.Cursor) bool {
		switch n := c.Node().(type) {
		case *ast.CallExpr:
			if e := r.syncCall(n); e != nil {
				c.Replace(e)
			}
		case *ast.GoStmt:
			r.count("go")
			if fl, ok := n.Call.Fun.(*ast.FuncLit); ok && len(n.Call.Args) == 0 {
				c.Replace(&ast.ExprStmt{X: call("Go", fl)})
				break
			}
			// evaluate the function value and arguments now, run the call in the task
			var stmts []ast.Stmt
			var args []ast.Expr
			for _, a := range n.Call.Args {
				r.tmpSeq++
				id := ast.NewIdent(fmt.Sprintf("verifsimArg%d", r.tmpSeq))
				stmts = append(stmts, &ast.AssignStmt{Lhs: []ast.Expr{id}, Tok: token.DEFINE, Rhs: []ast.Expr{a}})
				args = append(args, id)
			}
			inner := &ast.CallExpr{Fun: n.Call.Fun, Args: args, Ellipsis: n.Call.Ellipsis}
			stmts = append(stmts, &ast.ExprStmt{X: call("Go", &ast.FuncLit{
				Type: &ast.FuncType{Params: &ast.FieldList{}},
				Body: &ast.BlockStmt{List: []ast.Stmt{&ast.ExprStmt{X: inner}}}})})
			c.Replace(&ast.BlockStmt{List: stmts})
		case *ast.UnaryExpr:
			if n.Op == token.ARROW {
				// v, ok := <-ch is handled at the assignment
				if as, ok := c.Parent().(*ast.AssignStmt); ok && len(as.Lhs) == 2 && len(as.Rhs) == 1 {
					c.Replace(call("Recv2", n.X))
				} else if _, inSelect := c.Parent().(*ast.CommClause); inSelect {
					break
				} else if es, ok := c.Parent().(*ast.ExprStmt); ok && isCommOfSelect(es) {
					break
				} else {
					c.Replace(call("Recv", n.X))
				}
				r.count("recv")
			}
		case *ast.SelectorExpr:
			p, name, obj := r.pkgObj(n)
			switch p {
			case "time":
				if to, ok := timeFuncs[name]; ok {
					c.Replace(sel(to))
					r.count("clock")
				}
			case "math/rand":
				if _, isFn := obj.(*types.Func); isFn {
					if to, ok := mrandFuncs[name]; ok {
						c.Replace(sel(to))
						r.count("rand")
					}
				}
			case "crypto/rand":
				switch name {
				case "Reader":
					c.Replace(call("RandReader"))
					r.count("rand")
				case "Read":
					c.Replace(sel("RandRead"))
					r.count("rand")
				}
			case "os":
				if r.fs {
					if to, ok := osFuncs[name]; ok {
						c.Replace(sel(to))
						r.count("fs")
					}
				}
			}
		}
		return true
	})
}

// select comm clauses keep their receive (a select is left to the runtime and
// reported as uncontrolled).
var commStmts = map[ast.Stmt]bool{}

func isCommOfSelect(s ast.Stmt) bool { return commStmts[s] }

func markComm(f *ast.File) {
	ast.Inspect(f, func(n ast.Node) bool {
		if cc, ok := n.(*ast.CommClause); ok && cc.Comm != nil {
			commStmts[cc.Comm] = true
		}
		return true
	})
}

func main() {
	dir := flag.String("dir", "", "module root to rewrite in place")
	fsPkgs := flag.String("fs", "", "comma separated package paths whose os.* file calls go through FaultFS")
	reportPath := flag.String("report", "", "write a JSON report here")
	skip := flag.String("skip", "verifsim,docs", "comma separated path fragments to leave alone")
	flag.Parse()
	if *dir == "" {
		fatal("-dir required")
	}
	patterns := flag.Args()
	if len(patterns) == 0 {
		patterns = []string{"./..."}
	}
	cfg := &packages.Config{
		Mode: packages.NeedName | packages.NeedFiles | packages.NeedCompiledGoFiles | packages.NeedSyntax |
			packages.NeedTypes | packages.NeedTypesInfo | packages.NeedImports | packages.NeedDeps,
		Dir:   *dir,
		Tests: false,
		Env:   os.Environ(),
	}
	pkgs, err := packages.Load(cfg, patterns...)
	if err != nil {
		fatal("load: %v", err)
	}
	var fsSuffix []string
	if *fsPkgs != "" {
		fsSuffix = strings.Split(*fsPkgs, ",")
	}
	skips := strings.Split(*skip, ",")
	absDir, _ := filepath.Abs(*dir)
	nerr := 0
	for _, p := range pkgs {
		for _, e := range p.Errors {
			fmt.Fprintf(os.Stderr, "simrewrite: %s: %v\n", p.PkgPath, e)
			nerr++
		}
	}
	if nerr > 0 {
		fatal("%d package errors", nerr)
	}
	sort.Slice(pkgs, func(i, j int) bool { return pkgs[i].PkgPath < pkgs[j].PkgPath })
	for _, p := range pkgs {
		skipIt := false
		for _, s := range skips {
			if s != "" && strings.Contains(p.PkgPath+"/", "/"+s+"/") {
				skipIt = true
			}
		}
		if skipIt {
			continue
		}
		fs := false
		for _, s := range fsSuffix {
			if p.PkgPath == s {
				fs = true
			}
		}
		for i, f := range p.Syntax {
			name := p.CompiledGoFiles[i]
			if !strings.HasPrefix(name, absDir) || strings.HasSuffix(name, "_test.go") {
				continue
			}
			markComm(f)
			r := &rewriter{pkg: p, info: p.TypesInfo, fs: fs, fset: p.Fset}
			r.file(f)
			if !r.dirty {
				continue
			}
			astutil.AddNamedImport(p.Fset, f, simName, simPath)
			for _, imp := range []string{"time", "os", "math/rand", "crypto/rand", "sync", "sync/atomic"} {
				if !astutil.UsesImport(f, imp) {
					for _, spec := range f.Imports {
						if strings.Trim(spec.Path.Value, `"`) == imp {
							if spec.Name != nil {
								if spec.Name.Name == "_" {
									continue
								}
								astutil.DeleteNamedImport(p.Fset, f, spec.Name.Name, imp)
							} else {
								astutil.DeleteImport(p.Fset, f, imp)
							}
						}
					}
				}
			}
			out, err := os.Create(name)
			if err != nil {
				fatal("%v", err)
			}
			if err := format.Node(out, p.Fset, f); err != nil {
				fatal("format %s: %v", name, err)
			}
			out.Close()
			rep.Files++
		}
	}
	sort.Strings(rep.UncontrolledList)
	if *reportPath != "" {
		b, _ := json.MarshalIndent(rep, "", " ")
		os.WriteFile(*reportPath, b, 0644)
	}
	fmt.Printf("simrewrite: %d files, sites %v, uncontrolled %d\n", rep.Files, rep.Sites, len(rep.UncontrolledList))
}
