// Package dslbuild feeds a design spec to goa through its public DSL. It is
// used by the dslinterp command and by the design packages of the DIR engine
// (where the real goa CLI imports a design package, as it does for users).
package dslbuild

import (
	"reflect"
	"encoding/json"
	"sort"
	"strings"

	"goa.design/goa/v3/dsl"
	"goa.design/goa/v3/expr"
	"verif/sim/spec"
)

var design *spec.Design
var schemes = map[string]*expr.SchemeExpr{}

func prim(k string) expr.DataType {
	switch k {
	case spec.Boolean:
		return dsl.Boolean
	case spec.Int:
		return dsl.Int
	case spec.Int32:
		return dsl.Int32
	case spec.Int64:
		return dsl.Int64
	case spec.UInt:
		return dsl.UInt
	case spec.UInt32:
		return dsl.UInt32
	case spec.UInt64:
		return dsl.UInt64
	case spec.Float32:
		return dsl.Float32
	case spec.Float64:
		return dsl.Float64
	case spec.String:
		return dsl.String
	case spec.Bytes:
		return dsl.Bytes
	case spec.Any:
		return dsl.Any
	}
	panic("not a primitive: " + k)
}

// goVal converts a JSON-decoded spec value to the Go type goa expects for kind.
func goVal(kind string, v any) any {
	return goValT(&spec.Type{Kind: kind}, v)
}

// goValT builds the typed Go value Default() and Enum() expect.
func goValT(t *spec.Type, v any) any {
	t = design.Resolve(t)
	switch t.Kind {
	case spec.Array:
		arr, _ := v.([]any)
		if len(arr) == 0 {
			return v
		}
		first := goValT(t.Elem.Type, arr[0])
		out := reflect.MakeSlice(reflect.SliceOf(reflect.TypeOf(first)), 0, len(arr))
		for _, e := range arr {
			out = reflect.Append(out, reflect.ValueOf(goValT(t.Elem.Type, e)))
		}
		return out.Interface()
	case spec.Map:
		m, _ := v.(map[string]any)
		if len(m) == 0 {
			return v
		}
		var out reflect.Value
		for k, e := range m {
			ev := goValT(t.Elem.Type, e)
			if !out.IsValid() {
				out = reflect.MakeMap(reflect.MapOf(reflect.TypeOf(""), reflect.TypeOf(ev)))
			}
			out.SetMapIndex(reflect.ValueOf(k), reflect.ValueOf(ev))
		}
		return out.Interface()
	}
	return goScalar(t.Kind, v)
}

func goScalar(kind string, v any) any {
	if f, ok := v.(float64); ok {
		switch kind {
		case spec.Int:
			return int(f)
		case spec.Int32:
			return int32(f)
		case spec.Int64:
			return int64(f)
		case spec.UInt:
			return uint(f)
		case spec.UInt32:
			return uint32(f)
		case spec.UInt64:
			return uint64(f)
		case spec.Float32:
			return float32(f)
		case spec.Float64:
			return f
		}
	}
	return v
}

func num(kind string, f float64) any {
	if spec.IsInt(kind) {
		return int(f)
	}
	return f
}

var _ = num

// validations emits the validation and default DSL for an attribute.
func validations(a *spec.Attr) {
	k := design.Resolve(a.Type).Kind
	if v := a.Val; v != nil {
		if len(v.Enum) > 0 {
			vals := make([]any, len(v.Enum))
			for i, e := range v.Enum {
				vals[i] = goVal(k, e)
			}
			dsl.Enum(vals...)
		}
		if v.Format != "" {
			dsl.Format(expr.ValidationFormat(v.Format))
		}
		if v.Pattern != "" {
			dsl.Pattern(v.Pattern)
		}
		if v.Min != nil {
			dsl.Minimum(num(k, *v.Min))
		}
		if v.Max != nil {
			dsl.Maximum(num(k, *v.Max))
		}
		if v.ExclMin != nil {
			dsl.ExclusiveMinimum(num(k, *v.ExclMin))
		}
		if v.ExclMax != nil {
			dsl.ExclusiveMaximum(num(k, *v.ExclMax))
		}
		if v.MinLength != nil {
			dsl.MinLength(*v.MinLength)
		}
		if v.MaxLength != nil {
			dsl.MaxLength(*v.MaxLength)
		}
	}
	if a.HasDef && !a.DefFromAlias {
		dsl.Default(goValT(a.Type, a.Default))
	}
	if a.View != "" {
		dsl.View(a.View)
	}
}

// typeArg returns what to pass as the type argument of Attribute/ArrayOf/...,
// or (nil, fn) for an inline object.
func typeArg(t *spec.Type) any {
	switch t.Kind {
	case spec.User:
		if ut := expr.Root.UserType(t.Name); ut != nil {
			return ut
		}
		return t.Name
	case spec.Array:
		return dsl.ArrayOf(typeArg(t.Elem.Type), func() { validations(t.Elem) })
	case spec.Map:
		return dsl.MapOf(typeArg(t.Key.Type), typeArg(t.Elem.Type), func() {
			dsl.Key(func() { validations(t.Key) })
			dsl.Elem(func() { validations(t.Elem) })
		})
	case spec.Object:
		panic("inline object as element")
	}
	return prim(t.Kind)
}

func objectBody(t *spec.Type) {
	var req []string
	if t.Extend != "" {
		dsl.Extend(expr.Root.UserType(t.Extend))
		req = append(req, t.RequiredRepeat...)
	}
	if t.Reference != "" {
		dsl.Reference(expr.Root.UserType(t.Reference))
	}
	for _, f := range t.Fields {
		if f.Inherited {
			continue
		}
		if f.FromRef {
			// by name only: type, default and validations come from the referenced type; what is written here
			// replaces single validation keywords
			if f.Override != nil {
				ov := &spec.Attr{Type: f.Type, Val: f.Override}
				dsl.Attribute(f.Name, func() { validations(ov) })
			} else {
				dsl.Attribute(f.Name)
			}
			if f.Required {
				req = append(req, f.Name)
			}
			continue
		}
		attribute(f)
		if f.Required {
			req = append(req, f.Name)
		}
	}
	if len(req) > 0 {
		dsl.Required(req...)
	}
}

func attribute(f *spec.Attr) {
	if f.Type.Kind == spec.Object {
		dsl.Attribute(f.Name, func() { objectBody(f.Type); validations(f) })
		return
	}
	fn := func() { validations(f) }
	switch {
	case f.ErrName:
		dsl.ErrorName(f.Name, typeArg(f.Type), fn)
	case f.Sec == "username":
		dsl.Username(f.Name, typeArg(f.Type), fn)
	case f.Sec == "password":
		dsl.Password(f.Name, typeArg(f.Type), fn)
	case f.Sec == "token":
		dsl.Token(f.Name, typeArg(f.Type), fn)
	case f.Sec == "accesstoken":
		dsl.AccessToken(f.Name, typeArg(f.Type), fn)
	case strings.HasPrefix(f.Sec, "apikey:"):
		dsl.APIKey(f.Sec[7:], f.Name, typeArg(f.Type), fn)
	default:
		dsl.Attribute(f.Name, typeArg(f.Type), fn)
	}
}

func errorDSL(e *spec.ErrorDef) {
	fn := func() {
		if e.Temporary {
			dsl.Temporary()
		}
		if e.Timeout {
			dsl.Timeout()
		}
		if e.Fault {
			dsl.Fault()
		}
	}
	if e.Type != nil {
		dsl.Error(e.Name, typeArg(e.Type), fn)
	} else {
		dsl.Error(e.Name, fn)
	}
}

func security(reqs []*spec.Requirement) {
	for _, r := range reqs {
		args := make([]any, 0, len(r.Schemes)+1)
		for _, s := range r.Schemes {
			args = append(args, schemes[s])
		}
		if len(r.Scopes) > 0 {
			sc := r.Scopes
			args = append(args, func() {
				for _, s := range sc {
					dsl.Scope(s)
				}
			})
		}
		dsl.Security(args...)
	}
}

func sortedKeys(m map[string]string) []string {
	ks := make([]string, 0, len(m))
	for k := range m {
		ks = append(ks, k)
	}
	sort.Strings(ks)
	return ks
}

func mapped(attr, wire string) string {
	if wire == "" || wire == attr {
		return attr
	}
	return attr + ":" + wire
}

func errorResponses(errs []*spec.ErrorDef) {
	for _, e := range errs {
		e := e
		if e.Inherit != "" {
			continue // mapped where it is inherited from
		}
		if e.EmptyBody {
			dsl.Response(e.Name, e.Status, func() { dsl.Body(dsl.Empty) })
			continue
		}
		if len(e.Headers) == 0 {
			dsl.Response(e.Name, e.Status)
			continue
		}
		dsl.Response(e.Name, e.Status, func() {
			for _, a := range sortedKeys(e.Headers) {
				dsl.Header(mapped(a, e.Headers[a]))
			}
		})
	}
}

// Build runs the DSL for d (top-level DSL, to be followed by eval.RunDSL).
func Build(d *spec.Design) {
	design = d
	for _, s := range d.Schemes {
		s := s
		fn := func() {
			for _, sc := range s.Scopes {
				dsl.Scope(sc, "scope "+sc)
			}
			if s.Kind == "oauth2" {
				dsl.ClientCredentialsFlow("http://sim/token", "http://sim/refresh")
			}
		}
		switch s.Kind {
		case "basic":
			schemes[s.Name] = dsl.BasicAuthSecurity(s.Name, fn)
		case "apikey":
			schemes[s.Name] = dsl.APIKeySecurity(s.Name, fn)
		case "jwt":
			schemes[s.Name] = dsl.JWTSecurity(s.Name, fn)
		case "oauth2":
			schemes[s.Name] = dsl.OAuth2Security(s.Name, fn)
		}
	}
	dsl.API(d.Name, func() {
		dsl.Title(d.Name)
		for _, e := range d.Errors {
			errorDSL(e)
		}
		security(d.Security)
		if len(d.Errors) > 0 {
			dsl.HTTP(func() { errorResponses(d.Errors) })
		}
	})
	for _, u := range d.Types {
		u := u
		if u.IsResult {
			dsl.ResultType(u.Identifier, func() {
				dsl.TypeName(u.Name)
				dsl.Attributes(func() { objectBody(u.Attr.Type) })
				for _, v := range u.Views {
					v := v
					dsl.View(v.Name, func() {
						for _, f := range v.Fields {
							if view, ok := v.Overrides[f]; ok {
								dsl.Attribute(f, func() { dsl.View(view) })
							} else {
								dsl.Attribute(f) // keeps the view set on the attribute itself, if any
							}
						}
					})
				}
			})
			continue
		}
		if u.Attr.Type.Kind == spec.Object {
			dsl.Type(u.Name, func() { objectBody(u.Attr.Type) })
		} else {
			dsl.Type(u.Name, typeArg(u.Attr.Type), func() { validations(u.Attr) })
		}
	}
	for _, s := range d.Services {
		s := s
		dsl.Service(s.Name, func() {
			for _, e := range s.Errors {
				errorDSL(e)
			}
			security(s.Security)
			dsl.HTTP(func() {
				if s.Path != "" {
					dsl.Path(s.Path)
				}
				errorResponses(s.Errors)
			})
			for _, m := range s.Methods {
				method(m)
			}
		})
	}
}

func topAttr(a *spec.Attr, set func(args ...any)) {
	switch a.Type.Kind {
	case spec.Object:
		set(func() { objectBody(a.Type); validations(a) })
	default:
		set(typeArg(a.Type), func() { validations(a) })
	}
}

func method(m *spec.Method) {
	dsl.Method(m.Name, func() {
		if m.NoSec {
			dsl.NoSecurity()
		}
		security(m.Security)
		if m.Payload != nil {
			topAttr(m.Payload, func(args ...any) { dsl.Payload(args[0], args[1:]...) })
		}
		if m.Result != nil && m.Collection {
			if m.FixedView != "" {
				dsl.Result(dsl.CollectionOf(typeArg(m.Result.Type)), func() { dsl.View(m.FixedView) })
			} else {
				dsl.Result(dsl.CollectionOf(typeArg(m.Result.Type)))
			}
		} else if m.Result != nil {
			if m.FixedView != "" {
				dsl.Result(typeArg(m.Result.Type), func() { dsl.View(m.FixedView) })
			} else {
				topAttr(m.Result, func(args ...any) { dsl.Result(args[0], args[1:]...) })
			}
		}
		for _, e := range m.Errors {
			errorDSL(e)
		}
		dsl.HTTP(func() {
			for _, r := range m.Routes {
				switch r.Verb {
				case "GET":
					dsl.GET(r.Path)
				case "POST":
					dsl.POST(r.Path)
				case "PUT":
					dsl.PUT(r.Path)
				case "DELETE":
					dsl.DELETE(r.Path)
				case "PATCH":
					dsl.PATCH(r.Path)
				}
			}
			for _, a := range sortedKeys(m.Params) {
				dsl.Param(mapped(a, m.Params[a]))
			}
			for _, a := range sortedKeys(m.Headers) {
				if m.ImplicitHeaders[a] {
					continue // left to goa: a credential without a location travels in Authorization
				}
				dsl.Header(mapped(a, m.Headers[a]))
			}
			for _, a := range sortedKeys(m.Cookies) {
				dsl.Cookie(mapped(a, m.Cookies[a]))
			}
			if m.Body != "" {
				dsl.Body(m.Body)
			}
			for _, r := range m.Responses {
				r := r
				fn := func() {
					if r.CodeInside {
						dsl.Code(r.Status)
					}
					if r.CT != "" {
						dsl.ContentType(r.CT)
					}
					for _, a := range sortedKeys(r.Headers) {
						dsl.Header(mapped(a, r.Headers[a]))
					}
					for _, a := range sortedKeys(r.Cookies) {
						dsl.Cookie(mapped(a, r.Cookies[a]))
					}
					if r.TagAttr != "" {
						dsl.Tag(r.TagAttr, r.TagVal)
					}
					if r.Body != "" {
						dsl.Body(r.Body)
					}
					if r.Empty {
						dsl.Body(dsl.Empty)
					}
				}
				if r.CodeInside {
					dsl.Response(fn)
				} else {
					dsl.Response(r.Status, fn)
				}
			}
			errorResponses(m.Errors)
		})
	})
}

// MustBuildJSON builds from a JSON spec; meant for `var _ = dslbuild.MustBuildJSON(specJSON)`.
func MustBuildJSON(b []byte) bool {
	d := &spec.Design{}
	if err := json.Unmarshal(b, d); err != nil {
		panic(err)
	}
	Build(d)
	return true
}
