package verifsim

import (
	"sync"
	crand "crypto/rand"
	"fmt"
	"io"
	"iter"
	mrand "math/rand"
	"os"
	"reflect"
	"sort"
	"strconv"
	"strings"
	"time"
)

// ---------------------------------------------------------------------------
// SimClock
// ---------------------------------------------------------------------------

// SimClock is the only clock simulated code reads.
type SimClock struct {
	now   time.Time
	Reads int
}

// Set sets the simulated time (engine side, between events).
//
//go:norace
func (c *SimClock) Set(t time.Time) { c.now = t }

// Advance moves simulated time by d (d may be negative: clock steps).
//
//go:norace
func (c *SimClock) Advance(d time.Duration) { c.now = c.now.Add(d) }

// Time returns the simulated time without counting as a read.
//
//go:norace
func (c *SimClock) Time() time.Time { return c.now }

// Now replaces time.Now.
//
//go:norace
func Now() time.Time {
	if s := active; s != nil {
		s.Clock.Reads++
		return s.Clock.now
	}
	if envClock != nil {
		// a process-wide simulated clock (generator processes): it starts at the configured origin and, when a
		// jitter seed is given, moves on by a seeded 0-2 ms at every reading - time passes, at a speed that
		// differs from one run to the next, which is all a program may assume about it
		envClockMu.Lock()
		defer envClockMu.Unlock()
		now := *envClock
		if envClockRng != nil {
			*envClock = envClock.Add(time.Duration(envClockRng.intN(2000)) * time.Microsecond)
		}
		return now
	}
	return time.Now()
}

// Since replaces time.Since.
func Since(t time.Time) time.Duration { return Now().Sub(t) }

// Until replaces time.Until.
func Until(t time.Time) time.Duration { return t.Sub(Now()) }

// Sleep replaces time.Sleep: simulated time jumps, nobody waits.
func Sleep(d time.Duration) {
	if s := Active(); s != nil {
		s.Clock.Advance(d)
		Yield("sleep")
		return
	}
	time.Sleep(d)
}

// ---------------------------------------------------------------------------
// SimRand
// ---------------------------------------------------------------------------

// SimRand records the entropy handed to simulated code.
type SimRand struct {
	Bytes int
	Draws int
	// Fresh lists every byte string handed out through RandReader, hex encoded
	// lazily by the engine; kept raw here.
	Fresh [][]byte
	// FreshBy[i] is the id of the task that drew Fresh[i] (-1: no task).
	FreshBy []int
}

// SetIdleMapMode selects the map order used by rewritten range statements
// while no simulation is running (engines that call goa code directly).
func SetIdleMapMode(m MapMode, seed uint64) {
	envMapMode = m
	envMapRng = &rng{s: seed}
}

// idleTape feeds the entropy seam in scenarios that run without a scheduler
// (sequential engines): identifiers goa generates are then part of the replayable run.
var idleTape *Tape

// SetIdleTape installs (or, with nil, removes) the tape used while no Sim is active.
func SetIdleTape(t *Tape) { idleTape = t }

// SetIdleClock fixes what Now returns while no simulation is running (setup
// code that constructs clock-reading objects); nil restores the real clock.
func SetIdleClock(t *time.Time) { envClock = t }

type tapeReader struct{}

//go:norace
func (tapeReader) Read(p []byte) (int, error) {
	s := active
	if s == nil {
		if it := idleTape; it != nil {
			for i := range p {
				p[i] = byte(it.Draw("entropy", 256))
			}
			return len(p), nil
		}
		return crand.Reader.Read(p)
	}
	for i := range p {
		p[i] = byte(s.Tape.Draw("entropy", 256))
	}
	s.Rand.Bytes += len(p)
	cp := make([]byte, len(p))
	copy(cp, p)
	s.Rand.Fresh = append(s.Rand.Fresh, cp)
	by := -1
	if s.cur != nil {
		by = s.cur.ID
	}
	s.Rand.FreshBy = append(s.Rand.FreshBy, by)
	return len(p), nil
}

// RandReader replaces crypto/rand.Reader.
func RandReader() io.Reader { return tapeReader{} }

// RandRead replaces crypto/rand.Read and math/rand.Read.
func RandRead(p []byte) (int, error) { return tapeReader{}.Read(p) }

// Intn replaces math/rand.Intn.
//
//go:norace
func Intn(n int) int {
	if s := active; s != nil {
		s.Rand.Draws++
		return s.Tape.Draw("intn", n)
	}
	return mrand.Intn(n)
}

// Int63n, Int31n, Float64, Int: the remaining math/rand top-level draws.
//
//go:norace
func Int63n(n int64) int64 {
	if s := active; s != nil && n < 1<<31 {
		s.Rand.Draws++
		return int64(s.Tape.Draw("intn", int(n)))
	}
	return mrand.Int63n(n)
}

//go:norace
func Int31n(n int32) int32 { return int32(Int63n(int64(n))) }

//go:norace
func Float64() float64 {
	if s := active; s != nil {
		s.Rand.Draws++
		return float64(s.Tape.Draw("float", 1<<20)) / (1 << 20)
	}
	return mrand.Float64()
}

//go:norace
func Int() int {
	if s := active; s != nil {
		s.Rand.Draws++
		return s.Tape.Draw("int", 1<<30)
	}
	return mrand.Int()
}

// ---------------------------------------------------------------------------
// MapOrder
// ---------------------------------------------------------------------------

// MapMode selects how rewritten `range` statements over maps iterate.
type MapMode int

const (
	MapRuntime MapMode = iota // leave it to Go
	MapSorted
	MapReverse
	MapSeeded // permutation from the tape at every visit
)

// envMap* configure map order in processes that run no Sim (the generator
// processes of the DIR engine), from the environment.
var (
	envMapMode MapMode
	envMapRng  *rng
	envClock   *time.Time
	envClockRng *rng
	envClockMu  sync.Mutex
	// MapVisits counts visits of rewritten range sites in this process.
	MapVisits int
)

func init() {
	if v := os.Getenv("VERIFSIM_MAPORDER"); v != "" {
		switch {
		case v == "sorted":
			envMapMode = MapSorted
		case v == "reverse":
			envMapMode = MapReverse
		case strings.HasPrefix(v, "seed:"):
			n, _ := strconv.ParseUint(v[5:], 10, 64)
			envMapMode = MapSeeded
			envMapRng = &rng{s: n}
		}
	}
	if v := os.Getenv("VERIFSIM_CLOCK"); v != "" {
		jit := ""
		if i := strings.Index(v, ":"); i >= 0 {
			v, jit = v[:i], v[i+1:]
		}
		if n, err := strconv.ParseInt(v, 10, 64); err == nil {
			t := time.Unix(n, 0)
			envClock = &t
			if j, err := strconv.ParseUint(jit, 10, 64); err == nil && jit != "" {
				envClockRng = &rng{s: j}
			}
		}
	}
	initFaultFS()
}

func lessKey(a, b reflect.Value) bool {
	if a.Kind() == reflect.Interface {
		a = a.Elem()
	}
	if b.Kind() == reflect.Interface {
		b = b.Elem()
	}
	if a.Kind() != b.Kind() {
		if !a.IsValid() || !b.IsValid() {
			return !a.IsValid() && b.IsValid()
		}
		return a.Kind() < b.Kind()
	}
	switch a.Kind() {
	case reflect.String:
		return a.String() < b.String()
	case reflect.Int, reflect.Int8, reflect.Int16, reflect.Int32, reflect.Int64:
		return a.Int() < b.Int()
	case reflect.Uint, reflect.Uint8, reflect.Uint16, reflect.Uint32, reflect.Uint64, reflect.Uintptr:
		return a.Uint() < b.Uint()
	case reflect.Float32, reflect.Float64:
		return a.Float() < b.Float()
	case reflect.Bool:
		return !a.Bool() && b.Bool()
	}
	return fmt.Sprint(a.Interface()) < fmt.Sprint(b.Interface())
}

// Range replaces `range m` for maps whose key type has a canonical order.
func Range[M ~map[K]V, K comparable, V any](m M) iter.Seq2[K, V] {
	return func(yield func(K, V) bool) {
		mode, s := envMapMode, Active()
		if s != nil {
			mode = s.MapMode
		}
		if mode == MapRuntime || len(m) < 2 {
			for k, v := range m {
				if !yield(k, v) {
					return
				}
			}
			return
		}
		keys := make([]K, 0, len(m))
		for k := range m {
			keys = append(keys, k)
		}
		sort.Slice(keys, func(i, j int) bool { return lessKey(reflect.ValueOf(keys[i]), reflect.ValueOf(keys[j])) })
		switch mode {
		case MapReverse:
			for i, j := 0, len(keys)-1; i < j; i, j = i+1, j-1 {
				keys[i], keys[j] = keys[j], keys[i]
			}
		case MapSeeded:
			mapPermute(s, len(keys), func(i, j int) { keys[i], keys[j] = keys[j], keys[i] })
		}
		mapVisit(s)
		for _, k := range keys {
			v, ok := m[k]
			if !ok {
				continue // deleted during iteration
			}
			if !yield(k, v) {
				return
			}
		}
	}
}

//go:norace
func mapVisit(s *Sim) {
	MapVisits++
}

//go:norace
func mapPermute(s *Sim, n int, swap func(i, j int)) {
	for i := 0; i < n-1; i++ {
		var j int
		if s != nil {
			j = i + s.Tape.Draw("maporder", n-i)
		} else {
			j = i + envMapRng.intN(n-i)
		}
		swap(i, j)
	}
}
