package verifsim

import (
	"fmt"
	"hash/fnv"
	"runtime"
	"runtime/debug"
	"sync"
	"syscall"
	"time"
	"unsafe"
)

// ---------------------------------------------------------------------------
// Gates the race detector cannot see: raw read(2)/write(2) on pipes.
// ---------------------------------------------------------------------------

//go:norace
func rawRead(fd int) int {
	var b [1]byte
	for {
		r, _, e := syscall.Syscall(syscall.SYS_READ, uintptr(fd), uintptr(unsafe.Pointer(&b[0])), 1)
		if e == syscall.EINTR {
			continue
		}
		if e != 0 {
			return -1
		}
		return int(r)
	}
}

//go:norace
func rawWrite(fd int) {
	b := [1]byte{1}
	for {
		_, _, e := syscall.Syscall(syscall.SYS_WRITE, uintptr(fd), uintptr(unsafe.Pointer(&b[0])), 1)
		if e == syscall.EINTR {
			continue
		}
		return
	}
}

// ---------------------------------------------------------------------------
// Operations a task reports to the controller.
// ---------------------------------------------------------------------------

type opKind uint8

const (
	opStart opKind = iota
	opYield
	opLock
	opRLock
	opUnlock
	opRUnlock
	opOnceEnter
	opOnceExit
	opWGAdd
	opWGWait
	opSpawn
	opPoll
	opDone
)

var opNames = [...]string{"start", "yield", "lock", "rlock", "unlock", "runlock", "once+", "once-", "wgadd", "wgwait", "spawn", "poll", "done"}

// Task is one simulated thread of control: a real goroutine that only runs
// while the controller has released it.
type Task struct {
	ID    int
	Name  string
	Local any // engine-owned, touched only by this task (and by the engine after Run)

	fn     func()
	r, w   int
	done   bool
	killed bool
	op     opKind
	addr   uintptr
	tag    string
	delta  int
	child  *Task
	prio   int
	polled bool

	Panic any
	Stack string
	Steps int
}

type lockState struct {
	id      int
	writer  *Task
	readers int
}
type onceState struct {
	id     int
	runner *Task
	done   bool
}

// Strategy selects how the controller picks the next task.
type Strategy int

const (
	StratUniform Strategy = iota
	StratPCT
	StratSticky // keep running the same task, switch with probability 1/8
	StratRoundRobin
	numStrategies
)

// SchedEvent is one entry of the schedule log.
type SchedEvent struct {
	Task int    `json:"t"`
	Op   string `json:"op"`
	Obj  int    `json:"obj,omitempty"`
	Tag  string `json:"tag,omitempty"`
}

// Sim is one simulated run.
type Sim struct {
	Tape     *Tape
	Strategy Strategy
	StepCap  int
	KeepLog  bool

	tasks   []*Task
	cur     *Task
	ctlR    int
	ctlW    int
	aborted bool
	wg      sync.WaitGroup

	locks  map[uintptr]*lockState
	onces  map[uintptr]*onceState
	wgs    map[uintptr]int
	nextID int

	pctChange map[int]bool
	lastTask  *Task
	rr        int

	// results
	Steps     int
	Deadlock  bool
	StepCapHit bool
	Pollers   int
	Sched     []SchedEvent
	hash      uint64
	Switches  int

	// other seams
	Clock   SimClock
	Rand    SimRand
	MapMode MapMode
	MapSites map[string]int

	seq uint64
}

// active is the simulation currently running in this process (nil = shims
// forward to the real operations).
var active *Sim

// Active returns the running simulation or nil.
//
//go:norace
func Active() *Sim { return active }

// NewSim creates a simulation whose decisions come from tape.
func NewSim(tape *Tape) *Sim {
	s := &Sim{Tape: tape, StepCap: 20000,
		locks: map[uintptr]*lockState{}, onces: map[uintptr]*onceState{}, wgs: map[uintptr]int{},
		MapSites: map[string]int{},
		// under a simulator no map iteration is left to the Go runtime: the order comes from the tape
		MapMode: MapSeeded}
	s.Clock.now = time.Date(2024, 1, 1, 0, 0, 0, 0, time.UTC)
	return s
}

// Spawn registers a task before Run (controller side).
func (s *Sim) Spawn(name string, local any, fn func()) *Task {
	t := &Task{ID: len(s.tasks), Name: name, fn: fn, Local: local}
	var p [2]int
	if err := syscall.Pipe(p[:]); err != nil {
		panic(err)
	}
	t.r, t.w = p[0], p[1]
	s.tasks = append(s.tasks, t)
	return t
}

// Tasks returns all tasks (after Run).
func (s *Sim) Tasks() []*Task { return s.tasks }

// Seq returns the next global event sequence number (callable from tasks).
//
//go:norace
func (s *Sim) Seq() uint64 { s.seq++; return s.seq }

// CurTask returns the task currently running, nil outside a simulation.
//
//go:norace
func CurTask() *Task {
	s := active
	if s == nil || s.aborted {
		return nil
	}
	return s.cur
}

//go:norace
func cur() (*Sim, *Task) {
	s := active
	if s == nil || s.aborted || s.cur == nil {
		return nil, nil
	}
	return s, s.cur
}

// point reports an operation to the controller and parks until released.
//
//go:norace
func (s *Sim) point(t *Task, op opKind, addr uintptr, tag string) {
	t.op, t.addr, t.tag = op, addr, tag
	rawWrite(s.ctlW)
	if op == opDone {
		return
	}
	if rawRead(t.r) <= 0 {
		t.killed = true
		runtime.Goexit()
	}
}

//go:norace
func (t *Task) isKilled() bool { return t.killed }

//go:norace
func (t *Task) kill() { t.killed = true }

func (s *Sim) start(t *Task) {
	s.wg.Add(1)
	go func() {
		defer s.wg.Done()
		if rawRead(t.r) <= 0 {
			return
		}
		defer func() {
			if t.isKilled() {
				return
			}
			if r := recover(); r != nil {
				t.Panic = r
				t.Stack = string(debug.Stack())
			}
			s.point(t, opDone, 0, "")
		}()
		t.fn()
	}()
}

//go:norace
func (s *Sim) blocked(t *Task) bool {
	switch t.op {
	case opLock:
		l := s.locks[t.addr]
		return l != nil && (l.writer != nil || l.readers > 0)
	case opRLock:
		l := s.locks[t.addr]
		return l != nil && l.writer != nil
	case opOnceEnter:
		o := s.onces[t.addr]
		return o != nil && o.runner != nil && o.runner != t && !o.done
	case opWGWait:
		return s.wgs[t.addr] > 0
	}
	return false
}

func (s *Sim) lock(addr uintptr) *lockState {
	l := s.locks[addr]
	if l == nil {
		s.nextID++
		l = &lockState{id: s.nextID}
		s.locks[addr] = l
	}
	return l
}

// grant applies the blocking request of t to the model just before t resumes.
//
//go:norace
func (s *Sim) grant(t *Task) int {
	switch t.op {
	case opLock:
		l := s.lock(t.addr)
		l.writer = t
		return l.id
	case opRLock:
		l := s.lock(t.addr)
		l.readers++
		return l.id
	case opOnceEnter:
		o := s.onces[t.addr]
		if o == nil {
			s.nextID++
			o = &onceState{id: s.nextID}
			s.onces[t.addr] = o
		}
		if !o.done && o.runner == nil {
			o.runner = t
		}
		return o.id
	}
	return 0
}

// process applies the non-blocking part of what t just reported.
//
//go:norace
func (s *Sim) process(t *Task) {
	switch t.op {
	case opUnlock:
		if l := s.locks[t.addr]; l != nil {
			l.writer = nil
		}
	case opRUnlock:
		if l := s.locks[t.addr]; l != nil && l.readers > 0 {
			l.readers--
		}
	case opOnceExit:
		if o := s.onces[t.addr]; o != nil && o.runner == t {
			o.done = true
			o.runner = nil
		}
	case opWGAdd:
		s.wgs[t.addr] += t.delta
	case opSpawn:
		c := t.child
		c.ID = len(s.tasks)
		c.prio = 1 + s.Tape.Draw("prio", 1<<16)
		s.tasks = append(s.tasks, c)
		t.child = nil
	case opDone:
		t.done = true
	}
	if t.op != opPoll {
		for _, x := range s.tasks {
			x.polled = false
		}
	} else {
		t.polled = true
	}
}

func (s *Sim) choose(elig []*Task) *Task {
	if len(elig) == 1 {
		return elig[0]
	}
	switch s.Strategy {
	case StratPCT:
		if s.pctChange[s.Steps] && s.lastTask != nil {
			s.lastTask.prio = -s.Steps // lower than everything so far
		}
		best := elig[0]
		for _, t := range elig[1:] {
			if t.prio > best.prio {
				best = t
			}
		}
		return best
	case StratSticky:
		if s.lastTask != nil {
			for _, t := range elig {
				if t == s.lastTask {
					if s.Tape.Draw("switch", 8) != 7 {
						return t
					}
					break
				}
			}
		}
		return elig[s.Tape.Draw("sched", len(elig))]
	case StratRoundRobin:
		s.rr++
		return elig[s.rr%len(elig)]
	}
	return elig[s.Tape.Draw("sched", len(elig))]
}

// Run executes the tasks to completion under the controller. It must be called
// from the goroutine that created the Sim; on return no task is running.
func (s *Sim) Run() {
	var p [2]int
	if err := syscall.Pipe(p[:]); err != nil {
		panic(err)
	}
	s.ctlR, s.ctlW = p[0], p[1]
	if s.Strategy == StratPCT {
		s.pctChange = map[int]bool{}
		d := 1 + s.Tape.Draw("pct-d", 3)
		for i := 0; i < d; i++ {
			s.pctChange[1+s.Tape.Draw("pct-k", 400)] = true
		}
	}
	for _, t := range s.tasks {
		t.prio = 1 + s.Tape.Draw("prio", 1<<16)
	}
	h := fnv.New64a()
	active = s
	for _, t := range s.tasks {
		s.start(t)
	}
	elig := make([]*Task, 0, len(s.tasks))
	for {
		elig = elig[:0]
		live, pollOnly := 0, true
		for _, t := range s.tasks {
			if t.done {
				continue
			}
			live++
			if !s.blocked(t) {
				elig = append(elig, t)
				if !(t.op == opPoll && t.polled) {
					pollOnly = false
				}
			}
		}
		if live == 0 {
			break
		}
		if len(elig) == 0 {
			s.Deadlock = true
			break
		}
		if pollOnly {
			s.Pollers = len(elig)
			break
		}
		// a task whose last poll found nothing waits until somebody else has
		// made a step (it cannot observe anything new before that)
		k := 0
		for _, t := range elig {
			if !(t.op == opPoll && t.polled) {
				elig[k] = t
				k++
			}
		}
		elig = elig[:k]
		if s.Steps >= s.StepCap {
			s.StepCapHit = true
			break
		}
		t := s.choose(elig)
		obj := s.grant(t)
		if t != s.lastTask {
			s.Switches++
		}
		s.lastTask = t
		s.cur = t
		s.Steps++
		t.Steps++
		fmt.Fprintf(h, "%d:%d:%d;", t.ID, t.op, obj)
		if s.KeepLog {
			s.Sched = append(s.Sched, SchedEvent{t.ID, opNames[t.op], obj, t.tag})
		}
		spawning := t
		rawWrite(t.w)
		if rawRead(s.ctlR) <= 0 {
			panic("verifsim: controller gate closed")
		}
		if spawning.op == opSpawn {
			c := spawning.child
			s.process(spawning)
			s.start(c)
		} else {
			s.process(spawning)
		}
	}
	s.hash = h.Sum64()
	s.cur = nil
	if s.Deadlock || s.StepCapHit || s.Pollers > 0 {
		// Unfinished tasks are parked; make every shim a pass-through and let
		// them unwind. The process is tainted afterwards (a real mutex may stay
		// locked): the worker reports and exits.
		s.aborted = true
		for _, t := range s.tasks {
			if !t.done {
				t.kill()
				syscall.Close(t.w)
			}
		}
	}
	if !(s.Deadlock || s.StepCapHit || s.Pollers > 0) {
		s.wg.Wait()
	}
	active = nil
	for _, t := range s.tasks {
		if t.done {
			syscall.Close(t.w)
		}
		syscall.Close(t.r)
	}
	syscall.Close(s.ctlR)
	syscall.Close(s.ctlW)
}

// Tainted reports whether the run left goroutines behind, in which case the
// process must not host another run.
func (s *Sim) Tainted() bool { return s.Deadlock || s.StepCapHit || s.Pollers > 0 }

// ScheduleHash identifies the interleaving that was executed.
func (s *Sim) ScheduleHash() uint64 { return s.hash }

// ---------------------------------------------------------------------------
// Shims called from rewritten code and from engines.
// ---------------------------------------------------------------------------

// Yield is a plain scheduling point.
//
//go:norace
func Yield(tag string) {
	if s, t := cur(); s != nil {
		s.point(t, opYield, 0, tag)
	}
}

// Point is Yield returning a value so that it can be sequenced inside an
// expression: Seq(Point("atomic"), expr).
func Point(tag string) struct{} { Yield(tag); return struct{}{} }

// Seq returns v; its first argument is evaluated first (left to right).
func Seq[T any](_ struct{}, v T) T { return v }

//go:norace
func lockerAddr(l sync.Locker) uintptr {
	switch x := l.(type) {
	case *sync.Mutex:
		return uintptr(unsafe.Pointer(x))
	case *sync.RWMutex:
		return uintptr(unsafe.Pointer(x))
	}
	type iface struct{ t, p unsafe.Pointer }
	return uintptr((*iface)(unsafe.Pointer(&l)).p)
}

// Lock is mu.Lock() as a scheduling point whose blocking is modelled.
func Lock(l sync.Locker) {
	if s, t := cur(); s != nil {
		s.point(t, opLock, lockerAddr(l), "")
	}
	l.Lock()
}

// Unlock is mu.Unlock() followed by a scheduling point.
func Unlock(l sync.Locker) {
	l.Unlock()
	if s, t := cur(); s != nil {
		s.point(t, opUnlock, lockerAddr(l), "")
	}
}

// RLock is mu.RLock().
func RLock(l *sync.RWMutex) {
	if s, t := cur(); s != nil {
		s.point(t, opRLock, uintptr(unsafe.Pointer(l)), "")
	}
	l.RLock()
}

// RUnlock is mu.RUnlock().
func RUnlock(l *sync.RWMutex) {
	l.RUnlock()
	if s, t := cur(); s != nil {
		s.point(t, opRUnlock, uintptr(unsafe.Pointer(l)), "")
	}
}

// OnceDo is o.Do(f).
func OnceDo(o *sync.Once, f func()) {
	s, t := cur()
	if s != nil {
		s.point(t, opOnceEnter, uintptr(unsafe.Pointer(o)), "")
	}
	o.Do(f)
	if s, t := cur(); s != nil {
		s.point(t, opOnceExit, uintptr(unsafe.Pointer(o)), "")
	}
}

// WGAdd is wg.Add(n).
func WGAdd(wg *sync.WaitGroup, n int) {
	wg.Add(n)
	if s, t := cur(); s != nil {
		wgPoint(s, t, opWGAdd, wg, n)
	}
}

//go:norace
func wgPoint(s *Sim, t *Task, op opKind, wg *sync.WaitGroup, n int) {
	t.delta = n
	s.point(t, op, uintptr(unsafe.Pointer(wg)), "")
}

// WGDone is wg.Done().
func WGDone(wg *sync.WaitGroup) { WGAdd(wg, -1) }

// WGWait is wg.Wait().
func WGWait(wg *sync.WaitGroup) {
	if s, t := cur(); s != nil {
		wgPoint(s, t, opWGWait, wg, 0)
	}
	wg.Wait()
}

// Go is `go f()`: under simulation the new goroutine becomes a task.
func Go(f func()) {
	s, t := cur()
	if s == nil {
		go f()
		return
	}
	spawnPoint(s, t, f)
}

//go:norace
func spawnPoint(s *Sim, t *Task, f func()) {
	c := &Task{Name: t.Name + "/go", fn: f}
	var p [2]int
	if err := syscall.Pipe(p[:]); err != nil {
		panic(err)
	}
	c.r, c.w = p[0], p[1]
	t.child = c
	s.point(t, opSpawn, 0, "")
}

// Recv is <-ch: under simulation a polling receive, so that the order of
// attempts is the tape's and no task blocks inside the runtime.
func Recv[T any](ch <-chan T) T {
	v, _ := Recv2(ch)
	return v
}

// Recv2 is v, ok := <-ch.
func Recv2[T any](ch <-chan T) (T, bool) {
	for {
		s, t := cur()
		if s == nil {
			v, ok := <-ch
			return v, ok
		}
		select {
		case v, ok := <-ch:
			s.point(t, opYield, 0, "recv")
			return v, ok
		default:
		}
		s.point(t, opPoll, 0, "recv")
	}
}
