package verifsim

import (
	"fmt"
	"io/fs"
	"os"
	"strconv"
	"strings"
	"sync"
	"syscall"
)

// FaultFS: pass-through to the real file system with operation counting and,
// at one chosen operation, process death (optionally after a torn write) or an
// error return. Configured from the environment because the code under test
// (the generator goa compiles and runs) lives in a child process:
//
//	VERIFSIM_FAULTFS=crash@N | crash@N:torn=PERMILLE | err@N:ENOSPC | err@N:EIO
//	VERIFSIM_FAULTFS_LOG=<file>   append one line per mutating operation
//	VERIFSIM_FAULTFS_ROOT=<dir>   only operations under dir are counted
//
// The crash model is process death: completed writes survive (goa never
// fsyncs, so nothing stronger is promised).
type faultCfg struct {
	on    bool
	kind  string // crash | err
	at    int
	torn  int // permille of the write that persists, -1 = none
	errno syscall.Errno
	log   *os.File
	root  string
	mu    sync.Mutex
	n     int
}

var ffs faultCfg

func initFaultFS() {
	ffs.torn = -1
	ffs.root = os.Getenv("VERIFSIM_FAULTFS_ROOT")
	if p := os.Getenv("VERIFSIM_FAULTFS_LOG"); p != "" {
		f, err := os.OpenFile(p, os.O_CREATE|os.O_APPEND|os.O_WRONLY, 0600)
		if err == nil {
			ffs.log = f
			ffs.on = true
		}
	}
	v := os.Getenv("VERIFSIM_FAULTFS")
	if v == "" {
		return
	}
	parts := strings.Split(v, ":")
	head := strings.SplitN(parts[0], "@", 2)
	if len(head) != 2 {
		return
	}
	n, err := strconv.Atoi(head[1])
	if err != nil {
		return
	}
	ffs.on, ffs.kind, ffs.at = true, head[0], n
	ffs.errno = syscall.EIO
	for _, p := range parts[1:] {
		switch {
		case strings.HasPrefix(p, "torn="):
			ffs.torn, _ = strconv.Atoi(p[5:])
		case p == "ENOSPC":
			ffs.errno = syscall.ENOSPC
		case p == "EIO":
			ffs.errno = syscall.EIO
		case p == "EACCES":
			ffs.errno = syscall.EACCES
		}
	}
}

func die() {
	if ffs.log != nil {
		ffs.log.Sync()
	}
	syscall.Kill(syscall.Getpid(), syscall.SIGKILL)
	select {}
}

// step numbers a mutating operation; returns (fault error or nil, torn bytes
// or -1). A crash without tearing never returns.
func step(op, path string, size int) (error, int) {
	if !ffs.on {
		return nil, -1
	}
	if ffs.root != "" && !strings.HasPrefix(path, ffs.root) {
		return nil, -1
	}
	ffs.mu.Lock()
	defer ffs.mu.Unlock()
	n := ffs.n
	ffs.n++
	if ffs.log != nil {
		fmt.Fprintf(ffs.log, "%d %s %s %d\n", n, op, path, size)
	}
	if ffs.kind == "" || n != ffs.at {
		return nil, -1
	}
	switch ffs.kind {
	case "crash":
		if op == "write" && ffs.torn >= 0 && size > 0 {
			return nil, size * ffs.torn / 1000
		}
		die()
	case "err":
		return &fs.PathError{Op: op, Path: path, Err: ffs.errno}, -1
	}
	return nil, -1
}

// File wraps *os.File so that writes and closes are FaultFS operations.
type File struct {
	*os.File
}

func wrap(f *os.File, err error) (*File, error) {
	if err != nil {
		return nil, err
	}
	return &File{f}, nil
}

func (f *File) Write(p []byte) (int, error) {
	err, torn := step("write", f.Name(), len(p))
	if err != nil {
		return 0, err
	}
	if torn >= 0 {
		f.File.Write(p[:torn])
		die()
	}
	return f.File.Write(p)
}

func (f *File) WriteString(s string) (int, error) { return f.Write([]byte(s)) }

func (f *File) Close() error {
	if err, _ := step("close", f.Name(), 0); err != nil {
		f.File.Close()
		return err
	}
	return f.File.Close()
}

// OpenFile replaces os.OpenFile.
func OpenFile(name string, flag int, perm os.FileMode) (*File, error) {
	if flag&(os.O_CREATE|os.O_TRUNC|os.O_WRONLY|os.O_RDWR|os.O_APPEND) != 0 {
		op := "open"
		if flag&os.O_TRUNC != 0 {
			op = "open-trunc"
		}
		if err, _ := step(op, name, 0); err != nil {
			return nil, err
		}
	}
	return wrap(os.OpenFile(name, flag, perm))
}

// Create replaces os.Create.
func Create(name string) (*File, error) {
	return OpenFile(name, os.O_RDWR|os.O_CREATE|os.O_TRUNC, 0666)
}

// Open replaces os.Open.
func Open(name string) (*File, error) { return wrap(os.Open(name)) }

// CreateTemp replaces os.CreateTemp.
func CreateTemp(dir, pattern string) (*File, error) {
	if err, _ := step("createtemp", dir+"/"+pattern, 0); err != nil {
		return nil, err
	}
	return wrap(os.CreateTemp(dir, pattern))
}

// MkdirAll replaces os.MkdirAll.
func MkdirAll(path string, perm os.FileMode) error {
	if _, err := os.Stat(path); err == nil {
		return os.MkdirAll(path, perm) // already there: not a mutation
	}
	if err, _ := step("mkdirall", path, 0); err != nil {
		return err
	}
	return os.MkdirAll(path, perm)
}

// MkdirTemp replaces os.MkdirTemp.
func MkdirTemp(dir, pattern string) (string, error) {
	if err, _ := step("mkdirtemp", dir+"/"+pattern, 0); err != nil {
		return "", err
	}
	return os.MkdirTemp(dir, pattern)
}

// WriteFile replaces os.WriteFile: open-trunc, write, close as separate steps.
func WriteFile(name string, data []byte, perm os.FileMode) error {
	f, err := OpenFile(name, os.O_WRONLY|os.O_CREATE|os.O_TRUNC, perm)
	if err != nil {
		return err
	}
	_, err = f.Write(data)
	if err1 := f.Close(); err1 != nil && err == nil {
		err = err1
	}
	return err
}

// ReadFile replaces os.ReadFile (never faulted: reads do not change state).
func ReadFile(name string) ([]byte, error) { return os.ReadFile(name) }

// Stat replaces os.Stat.
func Stat(name string) (os.FileInfo, error) { return os.Stat(name) }

// Remove replaces os.Remove.
func Remove(name string) error {
	if err, _ := step("remove", name, 0); err != nil {
		return err
	}
	return os.Remove(name)
}

// RemoveAll replaces os.RemoveAll.
func RemoveAll(path string) error {
	if err, _ := step("removeall", path, 0); err != nil {
		return err
	}
	return os.RemoveAll(path)
}

// Rename replaces os.Rename.
func Rename(a, b string) error {
	if err, _ := step("rename", b, 0); err != nil {
		return err
	}
	return os.Rename(a, b)
}

// FaultFSOps returns the number of mutating operations seen so far.
func FaultFSOps() int { return ffs.n }
