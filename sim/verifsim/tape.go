// Package verifsim is the simulator kernel that the rewritten copy of goa and
// the engines share. It only depends on the standard library. With no
// simulation active every shim forwards to the real operation.
package verifsim

import "fmt"

// rng is splitmix64, implemented here (not math/rand) so that draws made from
// simulated tasks stay invisible to the race detector: the tape is harness
// state and every access is serialised by the scheduler's gates.
type rng struct{ s uint64 }

//go:norace
func (r *rng) next() uint64 {
	r.s += 0x9e3779b97f4a7c15
	z := r.s
	z = (z ^ (z >> 30)) * 0xbf58476d1ce4e5b9
	z = (z ^ (z >> 27)) * 0x94d049bb133111eb
	return z ^ (z >> 31)
}

//go:norace
func (r *rng) intN(n int) int { return int((r.next() >> 11) % uint64(n)) }

// Draw is one recorded decision.
type Draw struct {
	K string `json:"k"` // kind
	N int    `json:"n"` // bound (value in [0,n))
	V int    `json:"v"` // value
}

// Tape is the single source of decisions of a run.
//
// Modes:
//   - fresh: values come from a PCG seeded with the run seed and are logged;
//   - replay (strict): values come from the log, kinds and bounds must agree;
//   - lenient: values come from a bare list (v mod n), draws past the end
//     return 0; used by the minimiser. The draws actually made are logged so
//     the result can be replayed strictly.
type Tape struct {
	rng     *rng
	in      []int
	strict  []Draw
	pos     int
	Log     []Draw
	Diverge string // set on strict-replay divergence
	limit   int
}

// NewTape returns a fresh tape for seed.
func NewTape(seed uint64) *Tape {
	return &Tape{rng: &rng{s: seed*0x2545f4914f6cdd1d + 0x1234567}}
}

// ReplayTape replays recorded draws strictly.
func ReplayTape(log []Draw) *Tape { return &Tape{strict: log} }

// LenientTape replays a bare value list.
func LenientTape(vals []int) *Tape { return &Tape{in: vals} }

// Values returns the values drawn so far.
func (t *Tape) Values() []int {
	vs := make([]int, len(t.Log))
	for i, d := range t.Log {
		vs[i] = d.V
	}
	return vs
}

// Draw returns a value in [0,n). n<=1 returns 0 without consuming.
//
//go:norace
func (t *Tape) Draw(kind string, n int) int {
	if n <= 1 {
		return 0
	}
	var v int
	switch {
	case t.strict != nil:
		if t.pos >= len(t.strict) {
			if t.Diverge == "" {
				t.Diverge = fmt.Sprintf("tape exhausted at draw %d (%s,%d)", t.pos, kind, n)
			}
			v = 0
		} else {
			d := t.strict[t.pos]
			if (d.K != kind || d.N != n) && t.Diverge == "" {
				t.Diverge = fmt.Sprintf("draw %d: recorded (%s,%d) but run asked (%s,%d)", t.pos, d.K, d.N, kind, n)
			}
			v = d.V % n
			if v < 0 {
				v = 0
			}
		}
		t.pos++
	case t.in != nil || t.rng == nil:
		if t.pos < len(t.in) {
			v = t.in[t.pos] % n
			if v < 0 {
				v = -v
			}
		}
		t.pos++
	default:
		v = t.rng.intN(n)
	}
	t.Log = append(t.Log, Draw{kind, n, v})
	return v
}

// Bool draws a boolean that is true with probability num/den.
func (t *Tape) Bool(kind string, num, den int) bool {
	return t.Draw(kind, den) < num
}

// Pick returns an index weighted by w (all weights >= 0, sum > 0). A zero
// draw maps to the first positive weight.
func (t *Tape) Pick(kind string, w ...int) int {
	sum := 0
	for _, x := range w {
		sum += x
	}
	if sum <= 0 {
		return 0
	}
	v := t.Draw(kind, sum)
	for i, x := range w {
		if v < x {
			return i
		}
		v -= x
	}
	return len(w) - 1
}

// Perm returns a permutation of n drawn from the tape (zero draws = identity).
func (t *Tape) Perm(kind string, n int) []int {
	p := make([]int, n)
	for i := range p {
		p[i] = i
	}
	for i := 0; i < n-1; i++ {
		j := i + t.Draw(kind, n-i)
		p[i], p[j] = p[j], p[i]
	}
	return p
}

// Sub derives an independent fresh tape (used to give sub-processes their own
// seed while keeping the parent tape short).
func (t *Tape) Sub(kind string) uint64 {
	hi := uint64(t.Draw(kind, 1<<30))
	lo := uint64(t.Draw(kind, 1<<30))
	return hi<<30 | lo
}
