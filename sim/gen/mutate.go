package gen

import (
	"fmt"
	"regexp"
	"strings"

	"goa.design/goa/v3/verifsim"
	"verif/sim/spec"
	"verif/sim/strgen"
)

// Site is one place in a value where exactly one constraint can be broken.
type Site struct {
	Path string // model path, e.g. .item.qty or .tags[1]
	Rule string
	set  func(nv any) // installs the violating value
	get  func() any
	attr *spec.Attr
	kind string
}

// Sites lists the constraint instances present in value v of attribute a.
// The value is modified in place by Break, so callers pass a deep copy.
func Sites(d *spec.Design, v any, a *spec.Attr, path string, set func(any)) []Site {
	var out []Site
	if v == nil {
		return nil
	}
	rt := d.Resolve(a.Type)
	for _, val := range effVals(d, a) {
		add := func(rule string) {
			out = append(out, Site{Path: path, Rule: rule, set: set, get: func() any { return v }, attr: a, kind: rt.Kind})
		}
		if len(val.Enum) > 0 {
			add("enum")
		}
		if val.Pattern != "" {
			add("pattern")
		}
		if val.Format != "" {
			add("format")
		}
		if val.Min != nil {
			add("min")
		}
		if val.Max != nil {
			add("max")
		}
		if val.ExclMin != nil {
			add("excl_min")
		}
		if val.ExclMax != nil {
			add(ExclMaxRule(val))
		}
		if val.MinLength != nil && *val.MinLength > 0 {
			add("min_length")
		}
		if val.MaxLength != nil {
			add("max_length")
		}
	}
	switch rt.Kind {
	case spec.Object:
		obj, _ := v.(map[string]any)
		for _, f := range rt.Fields {
			f := f
			// a required primitive lives in a non-pointer Go field: the generated
			// client cannot leave it out, only nil-able kinds can go missing
			if fk := d.Resolve(f.Type).Kind; f.Required && obj[f.Name] != nil && fk == spec.Object {
				out = append(out, Site{Path: path + "." + f.Name, Rule: "required", set: func(any) { delete(obj, f.Name) }, attr: f, kind: d.Resolve(f.Type).Kind})
			}
			if obj[f.Name] != nil {
				out = append(out, Sites(d, obj[f.Name], f, path+"."+f.Name, func(nv any) { obj[f.Name] = nv })...)
			}
		}
	case spec.Array:
		arr, _ := v.([]any)
		for i := range arr {
			i := i
			out = append(out, Sites(d, arr[i], rt.Elem, fmt.Sprintf("%s[%d]", path, i), func(nv any) { arr[i] = nv })...)
		}
	case spec.Map:
		if mv, _ := v.(*MapVal); mv != nil {
			for i := range mv.V {
				i := i
				out = append(out, Sites(d, mv.V[i], rt.Elem, fmt.Sprintf("%s[%s]", path, Show(mv.K[i])), func(nv any) { mv.V[i] = nv })...)
				// the key itself (constraints declared with Key(...) or carried by the key's alias type)
				out = append(out, Sites(d, mv.K[i], rt.Key, path+".key", func(nv any) {
					for j := range mv.K {
						if j != i && Equal(mv.K[j], nv) {
							return // would merge two entries: leave the map as it is
						}
					}
					mv.K[i] = nv
				})...)
			}
		}
	}
	return out
}

// Break installs a value that violates the site's rule (and, as far as the
// generator can arrange, nothing else). It returns false when no violating
// value exists for this carrier (e.g. min 0 on an unsigned integer).
func (s Site) Break(t *verifsim.Tape, d *spec.Design, loc Loc) bool {
	if s.Rule == "required" {
		s.set(nil)
		return true
	}
	var v0 spec.Validation
	for _, v := range effVals(d, s.attr) {
		v0 = *v
	}
	cur := s.get()
	num := func(f float64) (any, bool) {
		switch s.kind {
		case spec.UInt, spec.UInt32, spec.UInt64:
			if f < 0 {
				return nil, false
			}
			return uint64(f), true
		case spec.Int, spec.Int32, spec.Int64:
			return int64(f), true
		}
		return f, true
	}
	step := 1.0
	if s.kind == spec.Float32 || s.kind == spec.Float64 {
		step = []float64{0.125, 1, 1000}[t.Draw("break-step", 3)]
	}
	var nv any
	ok := true
	switch s.Rule {
	case "min":
		nv, ok = num(*v0.Min - step)
	case "max":
		nv, ok = num(*v0.Max + step)
	case "excl_min":
		if t.Draw("at-bound", 2) == 0 {
			nv, ok = num(*v0.ExclMin)
		} else {
			nv, ok = num(*v0.ExclMin - step)
		}
	case "excl_max", "excl_max_beside_excl_min":
		if t.Draw("at-bound", 2) == 0 {
			nv, ok = num(*v0.ExclMax)
		} else {
			nv, ok = num(*v0.ExclMax + step)
		}
	case "enum":
		switch cur.(type) {
		case string:
			nv = freeString(t, LocCookie, 1, 5) + "Q"
		case int64:
			nv = int64(7919)
		case uint64:
			nv = uint64(7919)
		case float64:
			nv = 7919.5
		default:
			return false
		}
	case "pattern":
		re, err := regexp.Compile(v0.Pattern)
		if err != nil {
			return false
		}
		cands := []string{"", "Q", "QQ QQ", strings.Repeat("Q", 9)}
		if s, ok := cur.(string); ok && len(s) > 0 {
			cands = append([]string{s[:len(s)-1] + "Q", "Q" + s}, cands...)
			if strings.Contains(v0.Pattern, "\r") && loc == LocBody {
				// the pattern's text holds a carriage return: so does the value that tells it from its CR-less twin
				cands = append([]string{s[:len(s)-1] + "\rQ" + s[len(s)-1:], s[:len(s)-1] + "\r" + s[len(s)-1:]}, cands...)
			}
		}
		found := false
		for _, c := range cands {
			if (loc == LocPath || loc == LocHeader || loc == LocCookie || loc == LocQuery) && c == "" {
				continue // an empty parameter is "missing", not "present and wrong"
			}
			if loc == LocCookie && strings.Contains(c, " ") {
				continue
			}
			if !re.MatchString(c) {
				nv, found = c, true
				break
			}
		}
		if !found {
			return false
		}
	case "format":
		valid, _ := cur.(string)
		c, _ := strgen.Corrupt(t, v0.Format, valid)
		if c == "" || (loc == LocCookie && strings.ContainsAny(c, " ,;\"\\")) || strings.TrimSpace(c) != c || strings.ContainsAny(c, "\n\r") {
			return false
		}
		nv = c
	case "min_length":
		switch x := cur.(type) {
		case string:
			r := []rune(x)
			if *v0.MinLength-1 > len(r) {
				return false
			}
			nv = string(r[:*v0.MinLength-1])
			if nv == "" && loc != LocBody {
				return false // empty parameters read as missing
			}
		case []any:
			if len(x) < *v0.MinLength-1 {
				return false
			}
			nv = x[:*v0.MinLength-1]
			if len(nv.([]any)) == 0 {
				// an empty collection is dropped from the wire (omitempty): indistinguishable from unset
				return false
			}
		case []byte:
			nv = x[:*v0.MinLength-1]
		case *MapVal:
			if *v0.MinLength-1 == 0 {
				return false
			}
			nv = &MapVal{K: x.K[:*v0.MinLength-1], V: x.V[:*v0.MinLength-1]}
		default:
			return false
		}
	case "max_length":
		switch x := cur.(type) {
		case string:
			// multi-byte padding: a byte-counting implementation would reject too early / too late
			pad := []string{"x", "é", "世"}[t.Draw("pad", 3)]
			if loc == LocCookie {
				pad = "x"
			}
			r := []rune(x)
			for len(r) <= *v0.MaxLength {
				r = append(r, []rune(pad)...)
			}
			nv = string(r)
		case []any:
			if len(x) == 0 {
				return false
			}
			y := append([]any{}, x...)
			for len(y) <= *v0.MaxLength {
				y = append(y, x[0])
			}
			nv = y
		case []byte:
			y := append([]byte{}, x...)
			for len(y) <= *v0.MaxLength {
				y = append(y, 'x')
			}
			nv = y
		default:
			return false
		}
	default:
		return false
	}
	if !ok {
		return false
	}
	if s.attr.HasDef && !s.attr.Required && isZero(nv) {
		// the sender's field is a plain value: its zero value reads as "unset" and the generated
		// client sends the default instead, so this violation cannot be expressed through it
		return false
	}
	s.set(carrierSafe(nv, loc))
	return true
}


// carrierSafe keeps a mutated string expressible in its location: HTTP parsers
// trim blanks around header and cookie values, so blanks at the ends are
// replaced (the length, which is what the mutation is about, stays the same).
func carrierSafe(v any, loc Loc) any {
	str, ok := v.(string)
	if !ok || loc == LocBody || loc == LocQuery {
		return v
	}
	r := []rune(str)
	for i := 0; i < len(r) && (r[i] == ' ' || r[i] == '\t' || r[i] == '\n'); i++ {
		r[i] = 'x'
	}
	for i := len(r) - 1; i >= 0 && (r[i] == ' ' || r[i] == '\t' || r[i] == '\n'); i-- {
		r[i] = 'x'
	}
	return string(r)
}

// BoundaryOK returns a value sitting exactly on the accepting side of the
// site's rule (min, max, lengths), for the "both sides of every boundary"
// clause. ok=false when the rule has no such notion.
func (s Site) BoundaryOK(t *verifsim.Tape, d *spec.Design, loc Loc) bool {
	var v0 spec.Validation
	for _, v := range effVals(d, s.attr) {
		v0 = *v
	}
	cur := s.get()
	conv := func(f float64) any {
		switch s.kind {
		case spec.UInt, spec.UInt32, spec.UInt64:
			return uint64(f)
		case spec.Int, spec.Int32, spec.Int64:
			return int64(f)
		}
		return f
	}
	// a defaulted attribute lives in a non-pointer Go field: its zero value IS "unset" for goa's transforms, so the
	// sender cannot express "0, not the default" (stated in the check's assumptions); such boundaries are skipped
	zeroOfDefaulted := func(f float64) bool { return s.attr.HasDef && f == 0 }
	switch s.Rule {
	case "min":
		if zeroOfDefaulted(*v0.Min) {
			return false
		}
		s.set(conv(*v0.Min))
	case "max":
		if zeroOfDefaulted(*v0.Max) {
			return false
		}
		s.set(conv(*v0.Max))
	case "max_length":
		if x, ok := cur.(string); ok {
			r := []rune(x)
			pad := []rune("é")
			if loc == LocCookie {
				pad = []rune("x")
			}
			for len(r) < *v0.MaxLength {
				r = append(r, pad...)
			}
			s.set(carrierSafe(string(r[:*v0.MaxLength]), loc))
			return true
		}
		return false
	case "min_length":
		if x, ok := cur.(string); ok {
			r := []rune(x)
			if len(r) >= *v0.MinLength && !(s.attr.HasDef && *v0.MinLength == 0) {
				s.set(carrierSafe(string(r[:*v0.MinLength]), loc))
				return true
			}
		}
		return false
	default:
		return false
	}
	return true
}

// DeepCopy copies a model value.
func DeepCopy(v any) any {
	switch x := v.(type) {
	case []any:
		out := make([]any, len(x))
		for i, e := range x {
			out[i] = DeepCopy(e)
		}
		return out
	case map[string]any:
		out := map[string]any{}
		for k, e := range x {
			out[k] = DeepCopy(e)
		}
		return out
	case *MapVal:
		if x == nil {
			return x
		}
		out := &MapVal{}
		for i := range x.K {
			out.K = append(out.K, DeepCopy(x.K[i]))
			out.V = append(out.V, DeepCopy(x.V[i]))
		}
		return out
	case []byte:
		return append([]byte{}, x...)
	}
	return v
}
