package gen

import (
	"fmt"
	"sort"
	"strings"

	"verif/sim/spec"
)

// StructuralFeatures describes WHERE in a design its features sit: the shape of every payload and result
// attribute per wire location, and the validation rules per location and nesting depth. The batch builder
// uses it to prefer designs that add combinations the batch does not have yet (designgen -pick), so that a
// quick batch does not depend on luck for, say, "an Any attribute in a request body" or "a user type two
// collections deep".
func StructuralFeatures(d *spec.Design) []string {
	set := map[string]bool{}
	var shape func(t *spec.Type, depth int) string
	shape = func(t *spec.Type, depth int) string {
		if t == nil {
			return "?"
		}
		if depth > 3 {
			return "..."
		}
		switch t.Kind {
		case spec.Array:
			return "array>" + shape(t.Elem.Type, depth+1)
		case spec.Map:
			k := ""
			if t.Key != nil && t.Key.Type.Kind != spec.String {
				k = "[" + t.Key.Type.Kind + "]"
			}
			return "map" + k + ">" + shape(t.Elem.Type, depth+1)
		case spec.User:
			u := d.UserType(t.Name)
			switch {
			case u == nil:
				return "user?"
			case u.IsResult:
				return "resulttype"
			case u.Attr.Type.Kind != spec.Object:
				return "alias:" + u.Attr.Type.Kind
			}
			return "user"
		}
		return t.Kind
	}
	rules := func(v *spec.Validation) []string {
		if v == nil {
			return nil
		}
		var r []string
		if len(v.Enum) > 0 {
			r = append(r, "enum")
		}
		if v.Format != "" {
			r = append(r, "format")
		}
		if v.Pattern != "" {
			r = append(r, "pattern")
		}
		if v.Min != nil {
			r = append(r, "min")
		}
		if v.Max != nil {
			r = append(r, "max")
		}
		if v.ExclMin != nil {
			r = append(r, "excl_min")
		}
		if v.ExclMax != nil {
			r = append(r, "excl_max")
		}
		if v.MinLength != nil {
			r = append(r, "min_length")
		}
		if v.MaxLength != nil {
			r = append(r, "max_length")
		}
		return r
	}
	var walk func(side, loc string, a *spec.Attr, depth int, seen map[string]bool)
	walk = func(side, loc string, a *spec.Attr, depth int, seen map[string]bool) {
		if a == nil || a.Type == nil || depth > 4 {
			return
		}
		where := loc
		if depth > 0 {
			where = fmt.Sprintf("%s+%d", loc, depth)
		}
		for _, r := range rules(a.Val) {
			set[side+"v:"+where+":"+r+":"+a.Type.Kind] = true
		}
		if a.Required {
			set[side+"v:"+where+":required:"+shape(a.Type, 3)] = true
		}
		if a.HasDef {
			set[side+"v:"+where+":default:"+shape(a.Type, 3)] = true
		}
		switch a.Type.Kind {
		case spec.Array, spec.Map:
			walk(side, loc, a.Type.Elem, depth+1, seen)
		case spec.Object:
			for _, f := range a.Type.Fields {
				walk(side, loc, f, depth+1, seen)
			}
		case spec.User:
			u := d.UserType(a.Type.Name)
			if u != nil && !seen[u.Name] {
				seen[u.Name] = true
				onlyReq := u.Attr.Type.Kind == spec.Object
				if onlyReq {
					anyReq := false
					for _, f := range u.Attr.Type.Fields {
						if f.Val != nil || !spec.IsPrimitive(f.Type.Kind) {
							onlyReq = false
						}
						anyReq = anyReq || f.Required
					}
					if onlyReq && anyReq {
						set[side+"v:"+where+":user-with-required-primitives-only"] = true
					}
				}
				walk(side, loc, u.Attr, depth, seen)
				delete(seen, u.Name)
			}
		}
	}
	for _, s := range d.Services {
		for _, m := range s.Methods {
			pathVars := map[string]bool{}
			for _, r := range m.Routes {
				for _, sg := range strings.Split(r.Path, "/") {
					if strings.HasPrefix(sg, "{") {
						pathVars[strings.Trim(sg, "{*}")] = true
					}
				}
			}
			top := func(side string, a *spec.Attr, locOf func(name string) string) {
				if a == nil {
					set[side+":none"] = true
					return
				}
				rt := d.Resolve(a.Type)
				if rt == nil || rt.Kind != spec.Object {
					set[side+":whole-body:"+shape(a.Type, 0)] = true
					walk(side, "body", a, 0, map[string]bool{})
					return
				}
				for _, f := range rt.Fields {
					loc := locOf(f.Name)
					set[side+":"+loc+":"+shape(f.Type, 0)] = true
					walk(side, loc, f, 0, map[string]bool{})
				}
			}
			top("pl", m.Payload, func(n string) string {
				switch {
				case pathVars[n]:
					return "path"
				case m.Params[n] != "":
					return "query"
				case m.Headers[n] != "":
					return "header"
				case m.Cookies[n] != "":
					return "cookie"
				}
				return "body"
			})
			for _, resp := range m.Responses {
				resp := resp
				top("rs", m.Result, func(n string) string {
					switch {
					case resp.Headers[n] != "":
						return "header"
					case resp.Cookies[n] != "":
						return "cookie"
					}
					return "body"
				})
			}
			if len(m.Routes) > 1 {
				set["routes:two"] = true
			}
		}
	}
	out := make([]string, 0, len(set))
	for k := range set {
		out = append(out, k)
	}
	sort.Strings(out)
	return out
}
