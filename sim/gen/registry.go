// Package gen is the library side of the GEN engine: registry of generated
// systems (filled by the glue packages), assembly of a generated client and
// server around SimNet, conversion between the reference model's values and
// the generated Go types, and the reference model itself.
package gen

import (
	"context"
	"fmt"
	"net/http"
	"reflect"
	"sort"
	"strings"

	goahttp "goa.design/goa/v3/http"
	goa "goa.design/goa/v3/pkg"
	"goa.design/goa/v3/security"
	"goa.design/goa/v3/verifsim"
	"verif/sim/simnet"
)

// Handler is the generic service implementation behind every generated
// Service interface.
type Handler func(ctx context.Context, svc, method string, payload any) (result any, view string, err error)

// AuthFunc receives every authorization callback.
type AuthFunc func(ctx context.Context, svc, kind string, scheme any, creds []string) (context.Context, error)

// Stub is embedded by the generated glue stubs.
type Stub struct {
	Svc    string
	Handle Handler
	Auth   AuthFunc
}

// H forwards a service method call.
func (s Stub) H(ctx context.Context, method string, p any) (any, string, error) {
	return s.Handle(ctx, s.Svc, method, p)
}

// BasicAuth implements the generated Auther interface.
func (s Stub) BasicAuth(ctx context.Context, user, pass string, sc *security.BasicScheme) (context.Context, error) {
	return s.Auth(ctx, s.Svc, "basic", sc, []string{user, pass})
}

// APIKeyAuth implements the generated Auther interface.
func (s Stub) APIKeyAuth(ctx context.Context, key string, sc *security.APIKeyScheme) (context.Context, error) {
	return s.Auth(ctx, s.Svc, "apikey", sc, []string{key})
}

// JWTAuth implements the generated Auther interface.
func (s Stub) JWTAuth(ctx context.Context, token string, sc *security.JWTScheme) (context.Context, error) {
	return s.Auth(ctx, s.Svc, "jwt", sc, []string{token})
}

// OAuth2Auth implements the generated Auther interface.
func (s Stub) OAuth2Auth(ctx context.Context, token string, sc *security.OAuth2Scheme) (context.Context, error) {
	return s.Auth(ctx, s.Svc, "oauth2", sc, []string{token})
}

// MethodHandle describes one generated service method.
type MethodHandle struct {
	GoName  string
	Payload reflect.Type
	Result  reflect.Type
	Viewed  bool
}

// ServiceHandle is what a glue package registers per generated service.
type ServiceHandle struct {
	Design, Service string
	HasAuther       bool
	NewEndpoints    any
	NewStub         func(Stub) any
	NewServer       any
	Mount           any
	NewClient       any
	Methods         map[string]*MethodHandle // by Go method name
	Types           map[string]reflect.Type
	Makers          map[string]func(error) *goa.ServiceError
}

var registry = map[string][]*ServiceHandle{}

// Register is called from glue init functions.
func Register(h *ServiceHandle) { registry[h.Design] = append(registry[h.Design], h) }

// Designs lists the registered designs.
func Designs() []string {
	var ds []string
	for d := range registry {
		ds = append(ds, d)
	}
	sort.Strings(ds)
	return ds
}

// Norm normalises an attribute / method / field name so that design names and
// goa's Go identifiers can be matched without reimplementing goa's Goify:
// case-folded, separators dropped.
func Norm(s string) string {
	var b strings.Builder
	for _, c := range strings.ToLower(s) {
		if (c >= 'a' && c <= 'z') || (c >= '0' && c <= '9') {
			b.WriteRune(c)
		}
	}
	return b.String()
}

// Method finds the handle of a design-level method name.
func (h *ServiceHandle) Method(name string) *MethodHandle {
	n := Norm(name)
	for k, m := range h.Methods {
		if Norm(k) == n {
			return m
		}
	}
	return nil
}

// Maker finds Make<ErrorName>.
func (h *ServiceHandle) Maker(errName string) func(error) *goa.ServiceError {
	n := "make" + Norm(errName)
	for k, f := range h.Makers {
		if Norm(k) == n {
			return f
		}
	}
	return nil
}

// TypeByName finds an exported struct type of the service package.
func (h *ServiceHandle) TypeByName(name string) reflect.Type {
	n := Norm(name)
	for k, t := range h.Types {
		if Norm(k) == n {
			return t
		}
	}
	return nil
}

func call(fn any, args ...any) ([]reflect.Value, error) {
	fv := reflect.ValueOf(fn)
	ft := fv.Type()
	if ft.NumIn() != len(args) && !ft.IsVariadic() {
		return nil, fmt.Errorf("generated constructor %s takes %d parameters, the harness knows %d", ft, ft.NumIn(), len(args))
	}
	in := make([]reflect.Value, len(args))
	for i, a := range args {
		pt := ft.In(i)
		if a == nil {
			in[i] = reflect.Zero(pt)
			continue
		}
		av := reflect.ValueOf(a)
		if !av.Type().AssignableTo(pt) {
			if av.Type().ConvertibleTo(pt) {
				av = av.Convert(pt)
			} else {
				return nil, fmt.Errorf("argument %d of %s: cannot use %s", i, ft, av.Type())
			}
		}
		in[i] = av
	}
	return fv.Call(in), nil
}

// System is one generated client/server pair around SimNet.
type System struct {
	Design  string
	Mux     goahttp.Muxer
	Net     *simnet.Net
	Handles map[string]*ServiceHandle
	clients map[string]reflect.Value
}

// Assemble mounts every service of a design on a fresh muxer and builds the
// generated clients over a SimNet that serves that muxer.
func Assemble(design string, tape *verifsim.Tape, cfg simnet.Config, h Handler, a AuthFunc, errh func(context.Context, http.ResponseWriter, error)) (*System, error) {
	hs := registry[design]
	if len(hs) == 0 {
		return nil, fmt.Errorf("design %q not linked into this binary", design)
	}
	s := &System{Design: design, Mux: goahttp.NewMuxer(), Handles: map[string]*ServiceHandle{}, clients: map[string]reflect.Value{}}
	s.Net = &simnet.Net{Tape: tape, Handler: s.Mux, Cfg: cfg}
	for _, sh := range hs {
		s.Handles[sh.Service] = sh
		if sh.NewServer == nil {
			continue
		}
		stub := sh.NewStub(Stub{Svc: sh.Service, Handle: h, Auth: a})
		eps, err := call(sh.NewEndpoints, stub)
		if err != nil {
			return nil, err
		}
		srv, err := call(sh.NewServer, eps[0].Interface(), s.Mux, goahttp.RequestDecoder, goahttp.ResponseEncoder, errh, nil)
		if err != nil {
			return nil, err
		}
		if _, err := call(sh.Mount, s.Mux, srv[0].Interface()); err != nil {
			return nil, err
		}
		cl, err := call(sh.NewClient, "http", "sim", s.Net, goahttp.RequestEncoder, goahttp.ResponseDecoder, false)
		if err != nil {
			return nil, err
		}
		s.clients[sh.Service] = cl[0]
	}
	return s, nil
}

// Endpoint returns the generated client endpoint of a method.
func (s *System) Endpoint(svc, method string) (goa.Endpoint, error) {
	c, ok := s.clients[svc]
	if !ok {
		return nil, fmt.Errorf("no client for service %q", svc)
	}
	mh := s.Handles[svc].Method(method)
	if mh == nil {
		return nil, fmt.Errorf("no method %q in generated service %q", method, svc)
	}
	m := c.MethodByName(mh.GoName)
	if !m.IsValid() {
		return nil, fmt.Errorf("generated client has no method %s", mh.GoName)
	}
	out := m.Call(nil)
	ep, ok := out[0].Interface().(goa.Endpoint)
	if !ok {
		return nil, fmt.Errorf("client method %s does not return a goa.Endpoint", mh.GoName)
	}
	return ep, nil
}
