package gen

import (
	"bytes"
	"fmt"
	"math"
	"reflect"
	"regexp"
	"sort"
	"strings"
	"unicode/utf8"

	"verif/sim/spec"
)

// Model values: nil (absent), bool, int64, uint64, float64, string, []byte,
// []any (array), *MapVal (map), map[string]any (object).

// MapVal is a model map value (ordered as generated).
type MapVal struct {
	K []any
	V []any
}

// ---------------------------------------------------------------------------
// model value -> generated Go value
// ---------------------------------------------------------------------------

func fieldByAttr(st reflect.Type, attr string) (reflect.StructField, bool) {
	n := Norm(attr)
	for i := 0; i < st.NumField(); i++ {
		f := st.Field(i)
		if f.IsExported() && Norm(f.Name) == n {
			return f, true
		}
	}
	return reflect.StructField{}, false
}

// ToGo builds a value of Go type rt from model value v of design type t.
func ToGo(d *spec.Design, v any, t *spec.Type, rt reflect.Type) (reflect.Value, error) {
	if v == nil {
		return reflect.Zero(rt), nil
	}
	rs := d.Resolve(t)
	switch rt.Kind() {
	case reflect.Ptr:
		e, err := ToGo(d, v, t, rt.Elem())
		if err != nil {
			return e, err
		}
		p := reflect.New(rt.Elem())
		p.Elem().Set(e)
		return p, nil
	case reflect.Struct:
		obj, ok := v.(map[string]any)
		if !ok || rs.Kind != spec.Object {
			return reflect.Value{}, fmt.Errorf("model value %T for struct %s", v, rt)
		}
		out := reflect.New(rt).Elem()
		for _, f := range rs.Fields {
			sf, ok := fieldByAttr(rt, f.Name)
			if !ok {
				return reflect.Value{}, fmt.Errorf("generated type %s has no field for attribute %q", rt, f.Name)
			}
			fv, err := ToGo(d, obj[f.Name], f.Type, sf.Type)
			if err != nil {
				return fv, err
			}
			out.FieldByIndex(sf.Index).Set(fv)
		}
		return out, nil
	case reflect.Slice:
		if b, ok := v.([]byte); ok {
			return reflect.ValueOf(append([]byte{}, b...)).Convert(rt), nil
		}
		arr, ok := v.([]any)
		if !ok {
			return reflect.Value{}, fmt.Errorf("model value %T for slice %s", v, rt)
		}
		out := reflect.MakeSlice(rt, len(arr), len(arr))
		for i, e := range arr {
			ev, err := ToGo(d, e, rs.Elem.Type, rt.Elem())
			if err != nil {
				return ev, err
			}
			out.Index(i).Set(ev)
		}
		return out, nil
	case reflect.Map:
		mv, ok := v.(*MapVal)
		if !ok {
			return reflect.Value{}, fmt.Errorf("model value %T for map %s", v, rt)
		}
		out := reflect.MakeMapWithSize(rt, len(mv.K))
		for i := range mv.K {
			kv, err := ToGo(d, mv.K[i], rs.Key.Type, rt.Key())
			if err != nil {
				return kv, err
			}
			vv, err := ToGo(d, mv.V[i], rs.Elem.Type, rt.Elem())
			if err != nil {
				return vv, err
			}
			out.SetMapIndex(kv, vv)
		}
		return out, nil
	case reflect.Interface:
		return reflect.ValueOf(anyToGo(v)).Convert(rt), nil
	}
	rv := reflect.ValueOf(v)
	if !rv.Type().ConvertibleTo(rt) {
		return reflect.Value{}, fmt.Errorf("cannot convert model %T to %s", v, rt)
	}
	return rv.Convert(rt), nil
}

func anyToGo(v any) any {
	switch x := v.(type) {
	case []any:
		out := make([]any, len(x))
		for i, e := range x {
			out[i] = anyToGo(e)
		}
		return out
	case map[string]any:
		out := map[string]any{}
		for k, e := range x {
			out[k] = anyToGo(e)
		}
		return out
	}
	return v
}

// FromGo reads a generated Go value back into a model value.
func FromGo(d *spec.Design, rv reflect.Value, t *spec.Type) any {
	if !rv.IsValid() {
		return nil
	}
	rs := d.Resolve(t)
	switch rv.Kind() {
	case reflect.Ptr:
		if rv.IsNil() {
			return nil
		}
		return FromGo(d, rv.Elem(), t)
	case reflect.Interface:
		if rv.IsNil() {
			return nil
		}
		if rs.Kind == spec.Any {
			return anyFromGo(rv.Interface())
		}
		return FromGo(d, rv.Elem(), t)
	case reflect.Struct:
		if rs.Kind != spec.Object {
			return fmt.Sprintf("<struct %s for %s>", rv.Type(), rs.Kind)
		}
		obj := map[string]any{}
		for _, f := range rs.Fields {
			sf, ok := fieldByAttr(rv.Type(), f.Name)
			if !ok {
				obj[f.Name] = fmt.Sprintf("<no field for %s>", f.Name)
				continue
			}
			if x := FromGo(d, rv.FieldByIndex(sf.Index), f.Type); x != nil {
				obj[f.Name] = x
			}
		}
		return obj
	case reflect.Slice:
		if rv.IsNil() {
			return nil
		}
		if rv.Type().Elem().Kind() == reflect.Uint8 && rs.Kind == spec.Bytes {
			return append([]byte{}, rv.Bytes()...)
		}
		arr := make([]any, rv.Len())
		for i := range arr {
			arr[i] = FromGo(d, rv.Index(i), rs.Elem.Type)
		}
		return arr
	case reflect.Map:
		if rv.IsNil() {
			return nil
		}
		mv := &MapVal{}
		keys := rv.MapKeys()
		sort.Slice(keys, func(i, j int) bool { return fmt.Sprint(keys[i].Interface()) < fmt.Sprint(keys[j].Interface()) })
		for _, k := range keys {
			mv.K = append(mv.K, FromGo(d, k, rs.Key.Type))
			mv.V = append(mv.V, FromGo(d, rv.MapIndex(k), rs.Elem.Type))
		}
		return mv
	case reflect.Bool:
		return rv.Bool()
	case reflect.Int, reflect.Int8, reflect.Int16, reflect.Int32, reflect.Int64:
		return rv.Int()
	case reflect.Uint, reflect.Uint8, reflect.Uint16, reflect.Uint32, reflect.Uint64:
		return rv.Uint()
	case reflect.Float32, reflect.Float64:
		return rv.Float()
	case reflect.String:
		return rv.String()
	}
	return fmt.Sprintf("<unsupported %s>", rv.Kind())
}

func anyFromGo(v any) any {
	switch x := v.(type) {
	case nil:
		return nil
	case bool, string, float64:
		return x
	case int:
		return float64(x)
	case int64:
		return float64(x)
	case float32:
		return float64(x)
	case []any:
		out := make([]any, len(x))
		for i, e := range x {
			out[i] = anyFromGo(e)
		}
		return out
	case map[string]any:
		out := map[string]any{}
		for k, e := range x {
			out[k] = anyFromGo(e)
		}
		return out
	}
	return fmt.Sprintf("<any:%T %v>", v, v)
}

// ---------------------------------------------------------------------------
// comparison and printing
// ---------------------------------------------------------------------------

func asFloat(v any) (float64, bool) {
	switch x := v.(type) {
	case int64:
		return float64(x), true
	case uint64:
		return float64(x), true
	case float64:
		return x, true
	}
	return 0, false
}

func isEmptyColl(v any) bool {
	switch x := v.(type) {
	case nil:
		return true
	case []any:
		return len(x) == 0
	case *MapVal:
		return x == nil || len(x.K) == 0
	case []byte:
		return len(x) == 0
	}
	return false
}

// Equal compares two model values; absent and empty collections are equal
// (Go and JSON cannot tell them apart in every location), integers compare
// across signedness, floats exactly.
func Equal(a, b any) bool {
	if isEmptyColl(a) && isEmptyColl(b) {
		return true
	}
	switch x := a.(type) {
	case nil:
		return b == nil
	case bool:
		y, ok := b.(bool)
		return ok && x == y
	case string:
		y, ok := b.(string)
		return ok && x == y
	case []byte:
		y, ok := b.([]byte)
		return ok && bytes.Equal(x, y)
	case int64:
		switch y := b.(type) {
		case int64:
			return x == y
		case uint64:
			return x >= 0 && uint64(x) == y
		case float64:
			return float64(x) == y
		}
		return false
	case uint64:
		switch y := b.(type) {
		case uint64:
			return x == y
		case int64:
			return y >= 0 && uint64(y) == x
		case float64:
			return float64(x) == y
		}
		return false
	case float64:
		fy, ok := asFloat(b)
		return ok && (x == fy || (math.IsNaN(x) && math.IsNaN(fy)))
	case []any:
		y, ok := b.([]any)
		if !ok || len(x) != len(y) {
			return false
		}
		for i := range x {
			if !Equal(x[i], y[i]) {
				return false
			}
		}
		return true
	case *MapVal:
		y, ok := b.(*MapVal)
		if !ok || len(x.K) != len(y.K) {
			return false
		}
		for i := range x.K {
			found := false
			for j := range y.K {
				if Equal(x.K[i], y.K[j]) {
					found = Equal(x.V[i], y.V[j])
					break
				}
			}
			if !found {
				return false
			}
		}
		return true
	case map[string]any:
		y, ok := b.(map[string]any)
		if !ok {
			return false
		}
		for k, xv := range x {
			if !Equal(xv, y[k]) {
				return false
			}
		}
		for k, yv := range y {
			if _, ok := x[k]; !ok && !Equal(nil, yv) {
				return false
			}
		}
		return true
	}
	return false
}

// Show prints a model value deterministically.
func Show(v any) string {
	switch x := v.(type) {
	case nil:
		return "<unset>"
	case string:
		return fmt.Sprintf("%q", x)
	case []byte:
		return fmt.Sprintf("bytes(%q)", x)
	case []any:
		s := make([]string, len(x))
		for i, e := range x {
			s[i] = Show(e)
		}
		return "[" + strings.Join(s, " ") + "]"
	case *MapVal:
		s := make([]string, len(x.K))
		for i := range x.K {
			s[i] = Show(x.K[i]) + ":" + Show(x.V[i])
		}
		sort.Strings(s)
		return "map{" + strings.Join(s, " ") + "}"
	case map[string]any:
		ks := make([]string, 0, len(x))
		for k := range x {
			ks = append(ks, k)
		}
		sort.Strings(ks)
		s := make([]string, len(ks))
		for i, k := range ks {
			s[i] = k + "=" + Show(x[k])
		}
		return "{" + strings.Join(s, " ") + "}"
	}
	return fmt.Sprintf("%v", v)
}

// Diff names the first place where two model values differ.
func Diff(want, got any, path string) string {
	if Equal(want, got) {
		return ""
	}
	if w, ok := want.(map[string]any); ok {
		if g, ok := got.(map[string]any); ok {
			ks := map[string]bool{}
			for k := range w {
				ks[k] = true
			}
			for k := range g {
				ks[k] = true
			}
			names := make([]string, 0, len(ks))
			for k := range ks {
				names = append(names, k)
			}
			sort.Strings(names)
			for _, k := range names {
				if d := Diff(w[k], g[k], path+"."+k); d != "" {
					return d
				}
			}
		}
	}
	if w, ok := want.([]any); ok {
		if g, ok := got.([]any); ok && len(w) == len(g) {
			for i := range w {
				if d := Diff(w[i], g[i], fmt.Sprintf("%s[%d]", path, i)); d != "" {
					return d
				}
			}
		}
	}
	return fmt.Sprintf("%s: want %s, got %s", strings.TrimPrefix(path, "."), Show(want), Show(got))
}

// ---------------------------------------------------------------------------
// validity under the design's constraints (reference semantics)
// ---------------------------------------------------------------------------

// Violation is one broken constraint.
// ExclMaxRule names the exclusive-maximum rule of a validation. Next to an exclusive MINIMUM it has a name of its
// own: goa's validation code generator (codegen.validationCode) leaves isExclMin set when it renders the exclusive
// maximum, so that the minimum check is emitted twice and the maximum never (known finding; goa's own golden tests
// embed that output).
func ExclMaxRule(v *spec.Validation) string {
	if v != nil && v.ExclMin != nil {
		return "excl_max_beside_excl_min"
	}
	return "excl_max"
}

type Violation struct {
	Path string // attribute path, e.g. body.item.qty
	Rule string // required | enum | format | pattern | min | max | excl_min | excl_max | min_length | max_length
}

func length(v any) (int, bool) {
	switch x := v.(type) {
	case string:
		return utf8.RuneCountInString(x), true
	case []byte:
		return len(x), true
	case []any:
		return len(x), true
	case *MapVal:
		return len(x.K), true
	}
	return 0, false
}

// Validate returns every constraint of attribute a (of design d) that value v breaks.
func Validate(d *spec.Design, v any, a *spec.Attr, path string) []Violation {
	var out []Violation
	if v == nil {
		return nil // absence is judged by the parent (required)
	}
	t := a.Type
	// constraints declared on the attribute, then those of every alias it goes through
	vals := []*spec.Validation{a.Val}
	for i := 0; t != nil && t.Kind == spec.User && i < 20; i++ {
		u := d.UserType(t.Name)
		if u == nil {
			break
		}
		vals = append(vals, u.Attr.Val)
		t = u.Attr.Type
	}
	for _, val := range vals {
		if val == nil {
			continue
		}
		if len(val.Enum) > 0 {
			ok := false
			for _, e := range val.Enum {
				if Equal(canonScalar(e), v) {
					ok = true
				}
			}
			if !ok {
				out = append(out, Violation{path, "enum"})
			}
		}
		if val.Pattern != "" {
			if s, ok := v.(string); ok {
				if re, err := regexp.Compile(val.Pattern); err == nil && !re.MatchString(s) {
					out = append(out, Violation{path, "pattern"})
				}
			}
		}
		if f, ok := asFloat(v); ok {
			if val.Min != nil && f < *val.Min {
				out = append(out, Violation{path, "min"})
			}
			if val.Max != nil && f > *val.Max {
				out = append(out, Violation{path, "max"})
			}
			if val.ExclMin != nil && f <= *val.ExclMin {
				out = append(out, Violation{path, "excl_min"})
			}
			if val.ExclMax != nil && f >= *val.ExclMax {
				out = append(out, Violation{path, ExclMaxRule(val)})
			}
		}
		if n, ok := length(v); ok {
			if val.MinLength != nil && n < *val.MinLength {
				out = append(out, Violation{path, "min_length"})
			}
			if val.MaxLength != nil && n > *val.MaxLength {
				out = append(out, Violation{path, "max_length"})
			}
		}
		// formats are judged by the generator that built the string (valid by
		// construction / corrupted by construction): see FormatVerdicts
	}
	switch t.Kind {
	case spec.Object:
		obj, _ := v.(map[string]any)
		for _, f := range t.Fields {
			fv := obj[f.Name]
			if fv == nil {
				// Go cannot tell an absent collection from an empty one (nil slice or map)
				if k := d.Resolve(f.Type).Kind; f.Required && k != spec.Array && k != spec.Map && k != spec.Bytes {
					out = append(out, Violation{path + "." + f.Name, "required"})
				}
				continue
			}
			out = append(out, Validate(d, fv, f, path+"."+f.Name)...)
		}
	case spec.Array:
		arr, _ := v.([]any)
		for i, e := range arr {
			out = append(out, Validate(d, e, t.Elem, fmt.Sprintf("%s[%d]", path, i))...)
		}
	case spec.Map:
		mv, _ := v.(*MapVal)
		if mv != nil {
			for i := range mv.K {
				out = append(out, Validate(d, mv.K[i], t.Key, path+".key")...)
				out = append(out, Validate(d, mv.V[i], t.Elem, fmt.Sprintf("%s[%s]", path, Show(mv.K[i])))...)
			}
		}
	}
	return out
}

// canonScalar maps a JSON-decoded spec scalar (enum, default) to a model value.
func canonScalar(v any) any {
	switch x := v.(type) {
	case float64:
		if x == math.Trunc(x) && math.Abs(x) < 1<<53 {
			return int64(x)
		}
		return x
	case int:
		return int64(x)
	}
	return v
}

// DefaultOf returns the model value of an attribute's default.
func DefaultOf(d *spec.Design, a *spec.Attr) any {
	if !a.HasDef {
		return nil
	}
	return defaultVal(d, a.Default, a)
}

func defaultVal(d *spec.Design, raw any, a *spec.Attr) any {
	rt := d.Resolve(a.Type)
	switch rt.Kind {
	case spec.Array:
		arr, _ := raw.([]any)
		out := make([]any, len(arr))
		for i, e := range arr {
			out[i] = defaultVal(d, e, rt.Elem)
		}
		return out
	case spec.Map:
		m, _ := raw.(map[string]any)
		ks := make([]string, 0, len(m))
		for k := range m {
			ks = append(ks, k)
		}
		sort.Strings(ks)
		out := &MapVal{}
		for _, k := range ks {
			out.K = append(out.K, k)
			out.V = append(out.V, defaultVal(d, m[k], rt.Elem))
		}
		return out
	}
	return canonScalarKind(raw, rt.Kind)
}

// Expected computes what the receiving side must observe for a value that the
// sending side expressed: defaults filled in for unset attributes (recursively).
// zeroAmbiguous collects paths where the sender's Go type cannot distinguish
// "unset" from the zero value (non-pointer field with a default): there the
// zero value or the default are both accepted.
func Expected(d *spec.Design, v any, a *spec.Attr) any {
	t := d.Resolve(a.Type)
	if v == nil {
		return nil
	}
	switch t.Kind {
	case spec.Object:
		obj, _ := v.(map[string]any)
		out := map[string]any{}
		for _, f := range t.Fields {
			fv := obj[f.Name]
			if fv == nil {
				if f.HasDef {
					out[f.Name] = DefaultOf(d, f)
				}
				continue
			}
			out[f.Name] = Expected(d, fv, f)
		}
		return out
	case spec.Array:
		arr, _ := v.([]any)
		out := make([]any, len(arr))
		for i, e := range arr {
			out[i] = Expected(d, e, t.Elem)
		}
		return out
	case spec.Map:
		mv, _ := v.(*MapVal)
		if mv == nil {
			return nil
		}
		out := &MapVal{}
		for i := range mv.K {
			out.K = append(out.K, mv.K[i])
			out.V = append(out.V, Expected(d, mv.V[i], t.Elem))
		}
		return out
	}
	return v
}


// ---------------------------------------------------------------------------
// views (reference semantics of result-type projection)
// ---------------------------------------------------------------------------

// ViewOf finds a view of a result type ("" means "default").
func ViewOf(u *spec.UserType, name string) *spec.View {
	if name == "" {
		name = "default"
	}
	for _, v := range u.Views {
		if v.Name == name {
			return v
		}
	}
	return nil
}

// Project returns the value restricted to the attributes of view, nested
// result types projected with the view their attribute names (or "default").
// NestedRT returns the result type an attribute holds - directly, or as the element type of an array - and
// whether it is the array form. Such an attribute is rendered with a view of ITS type inside every view of the
// enclosing type.
func NestedRT(d *spec.Design, f *spec.Attr) (*spec.UserType, bool) {
	if f == nil || f.Type == nil {
		return nil, false
	}
	t, arr := f.Type, false
	if t.Kind == spec.Array && t.Elem != nil {
		t, arr = t.Elem.Type, true
	}
	if t.Kind != spec.User {
		return nil, false
	}
	if nu := d.UserType(t.Name); nu != nil && nu.IsResult {
		return nu, arr
	}
	return nil, false
}

func Project(d *spec.Design, v any, u *spec.UserType, view string) any {
	obj, ok := v.(map[string]any)
	vw := ViewOf(u, view)
	if !ok || vw == nil {
		return v
	}
	out := map[string]any{}
	for _, fn := range vw.Fields {
		f := u.Attr.Type.Field(fn)
		fv, present := obj[fn]
		if f == nil || !present || fv == nil {
			continue
		}
		if nu, arr := NestedRT(d, f); nu != nil {
			if arr {
				es, _ := fv.([]any)
				ps := make([]any, len(es))
				for i, e := range es {
					ps[i] = Project(d, e, nu, vw.NestedView(f))
				}
				out[fn] = ps
			} else {
				out[fn] = Project(d, fv, nu, vw.NestedView(f))
			}
			continue
		}
		out[fn] = fv
	}
	return out
}

// OutsideView lists attributes of value got (as read from the client's Go
// value) that are set although the view does not contain them. A zero value in
// a non-pointer field is what "unset" looks like there.
func OutsideView(d *spec.Design, got any, u *spec.UserType, view string, path string) []string {
	obj, ok := got.(map[string]any)
	vw := ViewOf(u, view)
	if !ok || vw == nil {
		return nil
	}
	in := map[string]bool{}
	for _, f := range vw.Fields {
		in[f] = true
	}
	var out []string
	for _, f := range u.Attr.Type.Fields {
		gv := obj[f.Name]
		if in[f.Name] {
			if nu, arr := NestedRT(d, f); nu != nil && gv != nil {
				if arr {
					es, _ := gv.([]any)
					for i, e := range es {
						out = append(out, OutsideView(d, e, nu, vw.NestedView(f), fmt.Sprintf("%s.%s[%d]", path, f.Name, i))...)
					}
				} else {
					out = append(out, OutsideView(d, gv, nu, vw.NestedView(f), path+"."+f.Name)...)
				}
			}
			continue
		}
		if gv == nil || isZero(gv) {
			continue
		}
		out = append(out, fmt.Sprintf("%s.%s=%s", path, f.Name, Show(gv)))
	}
	return out
}

func isZero(v any) bool {
	switch x := v.(type) {
	case bool:
		return !x
	case int64:
		return x == 0
	case uint64:
		return x == 0
	case float64:
		return x == 0
	case string:
		return x == ""
	}
	return isEmptyColl(v)
}
