package gen

import (
	"regexp"
	"math"
	"strings"

	"goa.design/goa/v3/verifsim"
	"verif/sim/spec"
	"verif/sim/strgen"
)

// Loc is where an attribute travels; it restricts the strings that HTTP itself
// can carry there (their loss would be the protocol's, not goa's).
type Loc int

const (
	LocBody Loc = iota
	LocPath
	LocQuery
	LocHeader
	LocCookie
)

var locNames = [...]string{"body", "path", "query", "header", "cookie"}

func (l Loc) String() string { return locNames[l] }

var bodyPool = []string{"a", "b", "Z", "0", "9", " ", "/", "?", "#", "%", "+", "&", "=", ";", ":", "@", ",", "%41", "%2F", "é", "ß", "世", "界", "😀", "\"", "\\", "<", ">", "'", "{", "}", "[", "]", "|", "~", "-", "_", ".", "\n", "\t"}
var headerPool = []string{"a", "b", "Z", "0", "9", " ", "/", "?", "#", "%", "+", "&", "=", ";", ":", "@", ",", "%41", "é", "世", "\"", "\\", "<", ">", "'", "{", "}", "~", "-", "_", "."}
var cookiePool = []string{"a", "b", "Z", "0", "9", "/", "?", "#", "%", "+", "&", "=", ":", "@", "%41", "<", ">", "'", "{", "}", "[", "]", "|", "~", "-", "_", ".", "!", "$", "(", ")", "*"}
var pathPool = []string{"a", "b", "Z", "0", "9", " ", "/", "?", "#", "%", "+", "&", "=", ";", ":", "@", ",", "%41", "%2F", "é", "世", "😀", "\"", "<", ">", "'", "{", "}", "|", "~", "-", "_"}

func poolFor(l Loc) []string {
	switch l {
	case LocHeader:
		return headerPool
	case LocCookie:
		return cookiePool
	case LocPath:
		return pathPool
	}
	return bodyPool
}

func freeString(t *verifsim.Tape, l Loc, lo, hi int) string {
	pool := poolFor(l)
	if hi < lo {
		hi = lo
	}
	n := lo + t.Draw("slen", hi-lo+1)
	var b strings.Builder
	cnt := 0
	for cnt < n {
		p := pool[t.Draw("sch", len(pool))]
		rc := len([]rune(p))
		if cnt+rc > n {
			p = "x"
			rc = 1
		}
		b.WriteString(p)
		cnt += rc
	}
	s := b.String()
	if l == LocHeader || l == LocCookie {
		// leading/trailing whitespace is trimmed by every HTTP parser
		s = strings.TrimSpace(s)
		for len([]rune(s)) < lo {
			s += "x"
		}
	}
	if l == LocPath && (s == "." || s == "..") {
		s += "a"
	}
	return s
}

func intRange(kind string) (lo, hi float64) {
	switch kind {
	case spec.Int32:
		return math.MinInt32, math.MaxInt32
	case spec.UInt32:
		return 0, math.MaxUint32
	case spec.UInt, spec.UInt64:
		return 0, math.MaxUint64
	}
	return math.MinInt64, math.MaxInt64
}

// GenOpts tunes value generation.
type GenOpts struct {
	Loc        Loc
	AvoidZero  bool // defaulted non-pointer attributes: zero and unset are indistinguishable for the sender
	NonEmpty   bool // path segments cannot be empty
	Depth      int
	OptionalP  int // probability (percent) that an optional attribute is present
}

// effective validation: the attribute's own plus those of aliases.
func effVals(d *spec.Design, a *spec.Attr) []*spec.Validation {
	var vs []*spec.Validation
	if a.Val != nil {
		vs = append(vs, a.Val)
	}
	t := a.Type
	for i := 0; t != nil && t.Kind == spec.User && i < 20; i++ {
		u := d.UserType(t.Name)
		if u == nil {
			break
		}
		if u.Attr.Val != nil {
			vs = append(vs, u.Attr.Val)
		}
		t = u.Attr.Type
	}
	return vs
}

// GenValid draws a value of attribute a that satisfies every constraint.
func GenValid(t *verifsim.Tape, d *spec.Design, a *spec.Attr, o GenOpts) any {
	rt := d.Resolve(a.Type)
	vals := effVals(d, a)
	var v0 spec.Validation
	for _, v := range vals { // the design generator gives at most one validation block per chain
		v0 = *v
	}
	if len(v0.Enum) > 0 {
		pick := canonScalarKind(v0.Enum[t.Draw("enum", len(v0.Enum))], rt.Kind)
		if o.AvoidZero && isZero(pick) {
			// (the zero value of a defaulted attribute reads as "unset": take another member when there is one)
			for _, e := range v0.Enum {
				if c := canonScalarKind(e, rt.Kind); !isZero(c) {
					return c
				}
			}
		}
		return pick
	}
	switch rt.Kind {
	case spec.Boolean:
		if o.AvoidZero {
			return true
		}
		return t.Draw("bool", 2) == 1
	case spec.Int, spec.Int32, spec.Int64, spec.UInt, spec.UInt32, spec.UInt64:
		lo, hi := intRange(rt.Kind)
		if v0.Min != nil {
			lo = math.Max(lo, *v0.Min)
		}
		if v0.Max != nil {
			hi = math.Min(hi, *v0.Max)
		}
		if v0.ExclMin != nil {
			lo = math.Max(lo, *v0.ExclMin+1)
		}
		if v0.ExclMax != nil {
			hi = math.Min(hi, *v0.ExclMax-1)
		}
		var f float64
		switch t.Draw("intk", 6) {
		case 1:
			f = lo
		case 2:
			f = hi
		case 0: // the minimiser's favourite: the valid value closest to zero
			f = math.Max(lo, math.Min(hi, 0))
		case 3:
			f = math.Max(lo, math.Min(hi, float64(t.Draw("small", 200)-100)))
		default:
			span := hi - lo
			if span > 1e6 {
				span = 1e6
			}
			f = lo + float64(t.Draw("intoff", int(span)+1))
		}
		if o.AvoidZero && f == 0 {
			if hi >= 1 {
				f = 1
			} else {
				f = lo
			}
		}
		if rt.Kind == spec.UInt || rt.Kind == spec.UInt32 || rt.Kind == spec.UInt64 {
			if f >= math.MaxUint64 {
				return uint64(math.MaxUint64)
			}
			return uint64(f)
		}
		if f >= math.MaxInt64 {
			return int64(math.MaxInt64)
		}
		if f <= math.MinInt64 {
			return int64(math.MinInt64)
		}
		return int64(f)
	case spec.Float32, spec.Float64:
		lo, hi := -1e6, 1e6
		if v0.Min != nil {
			lo = *v0.Min
		}
		if v0.Max != nil {
			hi = *v0.Max
		}
		excl := 0.0
		if v0.ExclMin != nil {
			lo = *v0.ExclMin
			excl = 0.125
		}
		if v0.ExclMax != nil {
			hi = *v0.ExclMax
		}
		var f float64
		switch t.Draw("fk", 5) {
		case 1:
			f = lo + excl
		case 2:
			f = hi
			if v0.ExclMax != nil {
				f = hi - 0.125
			}
		case 0:
			f = math.Max(lo+excl, math.Min(hi, 0.5))
			if v0.ExclMax != nil && f >= hi {
				f = hi - 0.125
			}
		default:
			// multiples of 1/8 are exact in float32 and print without an exponent
			f = lo + excl + float64(t.Draw("f8", 8000))/8
			if f > hi || (v0.ExclMax != nil && f >= hi) {
				f = lo + excl
			}
		}
		if rt.Kind == spec.Float32 {
			f = float64(float32(f))
		}
		if o.AvoidZero && f == 0 {
			f = 0.5
			if f > hi {
				f = lo + excl
			}
		}
		return f
	case spec.String:
		switch {
		case v0.Format != "":
			s, _ := strgen.ValidInstance(t, v0.Format)
			return s
		case v0.Pattern != "":
			if rx, ok := patternSamples[v0.Pattern]; ok {
				s := rx.Sample(t)
				for i := 0; i < 6 && s == "" && (o.NonEmpty || o.AvoidZero); i++ {
					s = rx.Sample(t)
				}
				if s == "" && (o.NonEmpty || o.AvoidZero) {
					// the sampler kept choosing the empty alternative: take any fixed non-empty member
					for k := uint64(1); k <= 24 && s == ""; k++ {
						s = rx.Sample(verifsim.NewTape(k * 7919))
					}
					if s != "" {
						return s
					}
					if re, err := regexp.Compile(v0.Pattern); err == nil {
						for _, c := range []string{"a", "A", "0", "ab", "a1", "aaa", "abc1", "x-1"} {
							if re.MatchString(c) {
								return c
							}
						}
					}
				}
				return s
			}
			return "" // unknown pattern: the design generator never produces this
		}
		lo, hi := 0, 12
		if v0.MinLength != nil {
			lo = *v0.MinLength
			if hi < lo {
				hi = lo + 4
			}
		}
		if v0.MaxLength != nil {
			hi = *v0.MaxLength
		}
		if (o.NonEmpty || o.AvoidZero) && lo == 0 && hi > 0 {
			lo = 1
		}
		return freeString(t, o.Loc, lo, hi)
	case spec.Bytes:
		lo, hi := 0, 10
		if v0.MinLength != nil {
			lo = *v0.MinLength
		}
		if v0.MaxLength != nil {
			hi = *v0.MaxLength
		}
		n := lo + t.Draw("blen", hi-lo+1)
		b := make([]byte, n)
		for i := range b {
			b[i] = byte(t.Draw("byte", 256))
		}
		return b
	case spec.Any:
		switch t.Draw("anyk", 4) {
		case 0:
			return freeString(t, LocBody, 1, 6)
		case 1:
			return float64(t.Draw("anyn", 1000))
		case 2:
			return true
		default:
			return []any{"x", float64(t.Draw("anyn", 10))}
		}
	case spec.Array:
		lo, hi := 0, 4
		if v0.MinLength != nil {
			lo = *v0.MinLength
			if hi < lo {
				hi = lo + 2
			}
		}
		if v0.MaxLength != nil {
			hi = *v0.MaxLength
		}
		if o.NonEmpty && lo == 0 && hi > 0 {
			lo = 1 // an empty array cannot be told from no parameter at all outside a body
		}
		n := lo + t.Draw("alen", hi-lo+1)
		arr := make([]any, n)
		eo := o
		eo.AvoidZero = false
		if o.Loc != LocBody {
			eo.NonEmpty = true // an empty element of a repeated parameter is not distinguishable from none
		}
		for i := range arr {
			arr[i] = GenValid(t, d, rt.Elem, eo)
		}
		return arr
	case spec.Map:
		lo, hi := 0, 3
		if v0.MinLength != nil {
			lo = *v0.MinLength
			if hi < lo {
				hi = lo + 2
			}
		}
		if v0.MaxLength != nil {
			hi = *v0.MaxLength
		}
		if o.NonEmpty && lo == 0 && hi > 0 {
			lo = 1 // an empty map cannot be told from no parameter at all outside a body
		}
		n := lo + t.Draw("mlen", hi-lo+1)
		mv := &MapVal{}
		eo := o
		eo.AvoidZero = false
		for i := 0; i < n+3 && len(mv.K) < n; i++ {
			k := GenValid(t, d, rt.Key, GenOpts{Loc: LocBody, NonEmpty: true})
			dup := false
			for _, x := range mv.K {
				if Equal(x, k) {
					dup = true
				}
			}
			if dup {
				continue
			}
			mv.K = append(mv.K, k)
			mv.V = append(mv.V, GenValid(t, d, rt.Elem, eo))
		}
		for i := 0; len(mv.K) < lo && i < 64; i++ { // duplicates drawn: fill up with keys that are distinct by construction
			var k any
			switch d.Resolve(rt.Key.Type).Kind {
			case spec.String:
				k = "k" + string(rune('a'+i))
			case spec.Int, spec.Int32, spec.Int64:
				k = int64(1000 + i)
			case spec.UInt, spec.UInt32, spec.UInt64:
				k = uint64(1000 + i)
			default:
				continue
			}
			if len(Validate(d, k, rt.Key, "")) > 0 {
				continue
			}
			dup := false
			for _, x := range mv.K {
				if Equal(x, k) {
					dup = true
				}
			}
			if !dup {
				mv.K = append(mv.K, k)
				mv.V = append(mv.V, GenValid(t, d, rt.Elem, eo))
			}
		}
		return mv
	case spec.Object:
		obj := map[string]any{}
		for _, f := range rt.Fields {
			fo := o
			fo.AvoidZero = f.HasDef && !f.Required
			fo.NonEmpty = false
			present := f.Required || f.HasDef || MustBeSet(d, f)
			if !present {
				p := o.OptionalP
				if p == 0 {
					p = 60
				}
				present = t.Draw("present", 100) < p
			}
			if present {
				obj[f.Name] = GenValid(t, d, f, fo)
			}
		}
		return obj
	}
	return nil
}

func canonScalarKind(v any, kind string) any {
	c := canonScalar(v)
	if i, ok := c.(int64); ok {
		switch kind {
		case spec.Float32, spec.Float64:
			return float64(i)
		case spec.UInt, spec.UInt32, spec.UInt64:
			return uint64(i)
		}
	}
	return c
}

// patternSamples maps the patterns the design generator may emit to their
// sample generators (a pattern is just text in the spec).
var patternSamples = map[string]strgen.Rx{}

// Patterns offered to designs: fixed, so that specs stay plain data.
var designPatterns []string

func init() {
	// deterministic little library of patterns with constructive samples
	t := verifsim.NewTape(20240611)
	for len(designPatterns) < 24 {
		r := strgen.GenRegex(t, 2)
		s := r.String()
		if _, dup := patternSamples[s]; dup || len(s) > 40 {
			continue
		}
		patternSamples[s] = r
		designPatterns = append(designPatterns, s)
	}
}


// handRx is a hand-written pattern with a constructive sample.
type handRx struct {
	pat    string
	sample func(t *verifsim.Tape) string
}

func (h handRx) String() string                 { return h.pat }
func (h handRx) Sample(t *verifsim.Tape) string { return h.sample(t) }

// bodyPatterns: patterns whose TEXT holds characters a generator has to carry into Go source with care (a
// backslash or a double quote next to a literal carriage return): offered to body attributes only,
// the one place whose values may hold a CR.
var bodyPatterns []string

func init() {
	word := func(t *verifsim.Tape) string { return strgen.Nstr(t, strgen.Letters, 1, 6) }
	for _, h := range []handRx{
		{"^\\w+: [^\r\n]*$", func(t *verifsim.Tape) string { return word(t) + ": " + strgen.Nstr(t, strgen.Letdig+" ", 0, 8) }},
		{"^\"[^\"\r]*\"$", func(t *verifsim.Tape) string { return "\"" + strgen.Nstr(t, strgen.Letdig, 0, 8) + "\"" }},
		// (a pattern whose matches hold a back quote is left out: goa puts the example it draws for the attribute into
		// a raw string literal of the generated CLI usage text, which then does not parse - C01 territory, by-product)
	} {
		patternSamples[h.pat] = h
		bodyPatterns = append(bodyPatterns, h.pat)
	}
}

// MustBeSet reports optional collection attributes that carry a minimum
// length. goa validates the length of a nil slice or map as 0, so leaving such
// an attribute unset is rejected (known finding, see known_findings.jsonl);
// value generation keeps them set except in the exchanges that probe exactly
// that.
func MustBeSet(d *spec.Design, f *spec.Attr) bool {
	k := d.Resolve(f.Type).Kind
	if k != spec.Array && k != spec.Map {
		return false
	}
	for _, v := range effVals(d, f) {
		if v.MinLength != nil && *v.MinLength > 0 {
			return true
		}
	}
	return false
}


// DesignPatterns returns the pattern library designs draw from.
func DesignPatterns() []string { return designPatterns }
