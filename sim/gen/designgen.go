package gen

import (
	"encoding/json"
	"fmt"
	"sort"
	"strings"

	"goa.design/goa/v3/verifsim"
	"verif/sim/spec"
)

// GenDesign draws a design spec inside the stage-1 envelope (DESIGN.md 4.1).
// Every feature hangs off its own draw so that an all-zero tape yields the
// smallest design and the minimiser can drop features one at a time.

var attrNames = []string{"name", "id", "user_id", "count", "url", "http_code", "flag", "ratio", "tags", "note", "kind", "size", "label", "ref", "owner_id", "ttl", "api_key_hint", "e_tag", "level", "mode", "data", "extra", "item", "items", "meta"}
var primKinds = []string{spec.String, spec.Int, spec.Boolean, spec.Int64, spec.Float64, spec.UInt, spec.Int32, spec.UInt32, spec.UInt64, spec.Float32}
var cookieFormats = []string{"date", "uuid", "ipv4", "mac", "email"}

type dgen struct {
	t           *verifsim.Tape
	d           *spec.Design
	feats       map[string]bool
	seq         int
	svcLevelErr string
	prevStar    *starRoute // the last catch-all route of the service being drawn (for sibling routes)
	focus       string     // "", "views", "security", "dir" (what generated FILES depend on: several media types per endpoint): biases the draw towards the features a property is about
}

type starRoute struct {
	prefix string
	verbs  map[string]bool
}

// chance draws true with probability num/den, or hi/den when the generator is focused on topic.
func (g *dgen) chance(kind, topic string, num, hi, den int) bool {
	if g.focus == topic {
		num = hi
	}
	return g.t.Draw(kind, den) < num
}

func (g *dgen) feat(f string) { g.feats[f] = true }

// names is the pool attribute names are drawn from: four names only under focus "shared", so that the same
// name (and the same error-message context such as "body.name") carries different constraints in different
// methods and designs of one batch, which all run in one process
func (g *dgen) names() []string {
	if g.focus == "shared" {
		return attrNames[:4]
	}
	return attrNames
}

func fp(f float64) *float64 { return &f }
func ip(i int) *int         { return &i }

// validation draws a validation block compatible with kind (or nil).
func (g *dgen) validation(kind string, loc Loc) *spec.Validation {
	t := g.t
	if g.focus == "shared" && kind == spec.String {
		if t.Draw("has-validation", 3) == 0 {
			return nil
		}
		if t.Draw("shared-pattern", 3) != 0 {
			g.feat("val:pattern")
			return &spec.Validation{Pattern: designPatterns[t.Draw("pattern", len(designPatterns))]}
		}
	} else if t.Draw("has-validation", 3) != 1 {
		return nil
	}
	v := &spec.Validation{}
	switch {
	case kind == spec.String:
		switch t.Draw("strval", 5) {
		case 0:
			v.MinLength = ip(1 + t.Draw("minlen", 3))
			g.feat("val:min_length")
		case 1:
			v.MaxLength = ip(2 + t.Draw("maxlen", 10))
			g.feat("val:max_length")
		case 2:
			v.Pattern = designPatterns[t.Draw("pattern", len(designPatterns))]
			g.feat("val:pattern")
			if loc == LocBody && t.Draw("body-pattern", 4) == 0 {
				v.Pattern = bodyPatterns[t.Draw("which-body-pattern", len(bodyPatterns))]
				g.feat("val:pattern-with-cr")
			}
		case 3:
			// "hostname" is left out: goa's hostname validator is known to be wrong
			// in both directions (C17 known finding) and would only add noise here
			fs := []string{"date", "date-time", "uuid", "email", "ipv4", "ipv6", "ip", "uri", "mac", "cidr", "regexp", "json", "rfc1123"}
			if loc == LocCookie || loc == LocPath {
				fs = cookieFormats
			}
			v.Format = fs[t.Draw("format", len(fs))]
			g.feat("val:format")
		default:
			pool := []string{"red", "green", "blue", "a b", "x/y", "é"}
			if loc == LocCookie {
				pool = []string{"red", "green", "blue", "x/y"}
			}
			n := 1 + t.Draw("enum-n", 3)
			for i := 0; i < n; i++ {
				v.Enum = append(v.Enum, pool[(t.Draw("enum-off", len(pool))+i)%len(pool)])
			}
			v.Enum = dedupe(v.Enum)
			g.feat("val:enum")
		}
	case spec.IsNum(kind):
		unsigned := kind == spec.UInt || kind == spec.UInt32 || kind == spec.UInt64
		base := float64(t.Draw("bound", 40) - 20)
		if unsigned && base < 0 {
			base = -base
		}
		switch t.Draw("numval", 9) {
		case 6:
			v.ExclMin, v.ExclMax = fp(base), fp(base+2+float64(t.Draw("span", 30)))
			g.feat("val:excl_min+excl_max")
		case 7:
			v.ExclMin, v.Max = fp(base), fp(base+1+float64(t.Draw("span", 30)))
			g.feat("val:excl_min+max")
		case 8:
			v.Min, v.ExclMax = fp(base), fp(base+1+float64(t.Draw("span", 30)))
			g.feat("val:min+excl_max")
		case 0:
			v.Min = fp(base)
			g.feat("val:min")
		case 1:
			v.Max = fp(base + 50)
			g.feat("val:max")
		case 2:
			v.Min, v.Max = fp(base), fp(base+float64(t.Draw("span", 30)))
			g.feat("val:min+max")
		case 3:
			v.ExclMin = fp(base)
			g.feat("val:excl_min")
		case 4:
			v.ExclMax = fp(base + 50)
			g.feat("val:excl_max")
		default:
			n := 1 + t.Draw("enum-n", 3)
			for i := 0; i < n; i++ {
				v.Enum = append(v.Enum, float64(int(base)+i*3))
			}
			g.feat("val:enum-num")
		}
	case kind == spec.Array || kind == spec.Map:
		switch t.Draw("collval", 3) {
		case 0:
			v.MinLength = ip(1 + t.Draw("minlen", 2))
			g.feat("val:min_items")
		case 1:
			// at least 2: goa's example generator crashes on a collection with MaxLength
			// below 2 (expr.NewLength computes max - rand%3 < 0; C01 by-product)
			v.MaxLength = ip(2 + t.Draw("maxlen", 4))
			g.feat("val:max_items")
		default:
			return nil
		}
	default:
		return nil
	}
	return v
}

func dedupe(in []any) []any {
	var out []any
	seen := map[string]bool{}
	for _, x := range in {
		k := fmt.Sprint(x)
		if !seen[k] {
			seen[k] = true
			out = append(out, x)
		}
	}
	return out
}

func (g *dgen) prim(loc Loc) *spec.Attr {
	kinds := primKinds
	k := kinds[g.t.Pick("prim", 6, 4, 2, 2, 2, 1, 1, 1, 1, 1)]
	a := &spec.Attr{Type: &spec.Type{Kind: k}}
	a.Val = g.validation(k, loc)
	g.feat("type:" + k)
	return a
}

// bodyType draws any type for a body attribute.
func (g *dgen) bodyType(depth int) *spec.Attr {
	t := g.t
	// weight 0: attributes that are inline objects make goa emit uncompilable
	// transport types (C01 territory, by-product): excluded from the envelope
	k := t.Pick("bodykind", 8, 3, 2, 3, 0, 1)
	if depth <= 0 && k >= 1 && k <= 3 {
		k = 0
	}
	switch k {
	case 1: // array
		el := g.bodyType(depth - 1)
		if el.Type.Kind == spec.Object {
			el = g.prim(LocBody)
		}
		a := &spec.Attr{Type: &spec.Type{Kind: spec.Array, Elem: el}}
		a.Val = g.validation(spec.Array, LocBody)
		g.feat("type:array")
		return a
	case 2: // map
		key := &spec.Attr{Type: &spec.Type{Kind: spec.String}}
		if t.Draw("intkey", 4) == 0 {
			key = &spec.Attr{Type: &spec.Type{Kind: spec.Int}}
			g.feat("type:map-int-key")
		}
		if key.Val = g.validation(key.Type.Kind, LocBody); key.Val != nil {
			if key.Val.Format != "" || len(key.Val.Enum) > 0 {
				key.Val = nil // (formats are judged by construction of the value, enums leave too few distinct keys)
			} else {
				g.feat("val:map-key")
			}
		}
		el := g.bodyType(depth - 1)
		if el.Type.Kind == spec.Object {
			el = g.prim(LocBody)
		}
		a := &spec.Attr{Type: &spec.Type{Kind: spec.Map, Key: key, Elem: el}}
		a.Val = g.validation(spec.Map, LocBody)
		if key.Val != nil {
			a.Val = nil // constrained keys and a minimum number of entries together can leave too few admissible keys
		}
		g.feat("type:map")
		return a
	case 3: // user type (existing or new)
		if len(g.d.Types) > 0 && t.Draw("reuse-type", 2) == 0 {
			var plain []*spec.UserType
			for _, u := range g.d.Types {
				if !u.IsResult && !u.IsError && !u.NoReuse {
					plain = append(plain, u)
				}
			}
			if len(plain) > 0 {
				u := plain[t.Draw("which-type", len(plain))]
				g.feat("type:user-shared")
				return &spec.Attr{Type: &spec.Type{Kind: spec.User, Name: u.Name}}
			}
		}
		return &spec.Attr{Type: &spec.Type{Kind: spec.User, Name: g.newUserType(depth - 1).Name}}
	case 4: // inline object
		g.feat("type:inline-object")
		return &spec.Attr{Type: g.object(1+t.Draw("nfields", 3), depth-1, LocBody)}
	case 5:
		k := []string{spec.Bytes, spec.Any}[t.Draw("bytes-any", 2)]
		g.feat("type:" + k)
		return &spec.Attr{Type: &spec.Type{Kind: k}}
	}
	return g.prim(LocBody)
}

func (g *dgen) newUserType(depth int) *spec.UserType {
	g.seq++
	name := fmt.Sprintf("T%dType", g.seq)
	if g.t.Draw("alias", 5) == 0 {
		a := g.prim(LocBody)
		u := &spec.UserType{Name: fmt.Sprintf("A%dAlias", g.seq), Attr: a}
		g.d.Types = append(g.d.Types, u)
		g.feat("type:alias")
		return u
	}
	u := &spec.UserType{Name: name, Attr: &spec.Attr{Type: g.object(1+g.t.Draw("nfields", 4), depth, LocBody)}}
	g.d.Types = append(g.d.Types, u)
	g.feat("type:user")
	return u
}

// object draws an object type with n fields of body-capable types.
func (g *dgen) object(n, depth int, loc Loc) *spec.Type {
	t := g.t
	o := &spec.Type{Kind: spec.Object}
	off := t.Draw("name-off", len(g.names()))
	for i := 0; i < n; i++ {
		f := g.bodyType(depth)
		f.Name = g.names()[(off+i*3)%len(g.names())]
		for o.Field(f.Name) != nil {
			f.Name += "x"
		}
		g.requiredOrDefault(f)
		o.Fields = append(o.Fields, f)
	}
	if !g.extend(o) {
		g.reference(o)
	}
	return o
}

// nonObject draws a payload or result that is not an object: a primitive, an array or a map (the whole body).
func (g *dgen) nonObject(what string) *spec.Attr {
	t := g.t
	var a *spec.Attr
	switch t.Pick("non-object-kind", 3, 3, 2) {
	case 0:
		a = g.prim(LocBody)
		for a.Type.Kind == spec.Any {
			a = g.prim(LocBody)
		}
		g.feat(what + ":primitive")
	case 1:
		el := g.bodyType(1)
		if el.Type.Kind == spec.Object {
			el = g.prim(LocBody)
		}
		a = &spec.Attr{Type: &spec.Type{Kind: spec.Array, Elem: el}}
		a.Val = g.validation(spec.Array, LocBody)
		g.feat(what + ":array")
	default:
		el := g.bodyType(1)
		if el.Type.Kind == spec.Object {
			el = g.prim(LocBody)
		}
		if what == "payload" && el.Type.Kind == spec.User && g.d.Resolve(el.Type).Kind == spec.Object {
			// a request body that is a map of a user type: the generated client refers to a constructor goa does
			// not emit (undefined: NewMapString<T>RequestBody; C01 territory, by-product)
			el = g.prim(LocBody)
		}
		a = &spec.Attr{Type: &spec.Type{Kind: spec.Map, Key: &spec.Attr{Type: &spec.Type{Kind: spec.String}}, Elem: el}}
		g.feat(what + ":map")
	}
	return a
}

// extend may make an object extend an earlier plain object type (DSL Extend): the base's attributes,
// required list and validations are merged in. Returns true when it did.
func (g *dgen) extend(o *spec.Type) bool {
	t := g.t
	var bases []*spec.UserType
	for _, u := range g.d.Types {
		if u.IsResult || u.IsError || u.Attr.Type.Kind != spec.Object || len(u.Attr.Type.Fields) == 0 {
			continue
		}
		if u.Attr.Type.Reference != "" {
			// (a type extending a type that refers to a third one sees the third one's attributes too: an attribute
			// declared here under one of THEIR names silently takes over their validations - no chains)
			continue
		}
		clash := false
		for _, f := range u.Attr.Type.Fields {
			if o.Field(f.Name) != nil || f.Sec != "" {
				clash = true
			}
		}
		if !clash {
			bases = append(bases, u)
		}
	}
	if len(bases) == 0 || t.Draw("extend", 5) != 0 {
		return false
	}
	b := bases[t.Draw("extend-which", len(bases))]
	o.Extend = b.Name
	for _, f := range b.Attr.Type.Fields {
		var cp spec.Attr
		raw, _ := json.Marshal(f)
		json.Unmarshal(raw, &cp)
		cp.Inherited = true
		o.Fields = append(o.Fields, &cp)
		if f.Required && t.Draw("extend-repeat-required", 2) == 0 {
			o.RequiredRepeat = append(o.RequiredRepeat, f.Name)
		}
	}
	g.feat("type:extend")
	return true
}

// reference makes o refer to an earlier user type (DSL Reference) and declares one or two of that type's
// primitive attributes by name only; one of them may replace a validation keyword (a wider or narrower bound).
// The referenced type keeps its own constraints wherever it is used itself.
func (g *dgen) reference(o *spec.Type) bool {
	t := g.t
	if o.Extend != "" || t.Draw("reference", 6) != 0 {
		return false
	}
	var bases []*spec.UserType
	for _, u := range g.d.Types {
		if u.IsResult || u.IsError || u.Attr.Type.Kind != spec.Object || u.Attr.Type.Reference != "" || u.Attr.Type.Extend != "" {
			continue
		}
		for _, f := range u.Attr.Type.Fields {
			if spec.IsPrimitive(f.Type.Kind) && f.Sec == "" && !f.Inherited && !f.FromRef && o.Field(f.Name) == nil {
				bases = append(bases, u)
				break
			}
		}
	}
	if len(bases) == 0 {
		return false
	}
	b := bases[t.Draw("reference-which", len(bases))]
	// the referencing object also takes over the referenced type's list of REQUIRED names (expr Inherit): every
	// required attribute of the base has to be declared here too, or goa refuses the design
	// ... and ANY attribute of the same name, also one declared here with a type of its own, silently takes the
	// base's default value and description (inheritRecursive): no name of the base may be in use here already
	for _, f := range b.Attr.Type.Fields {
		if o.Field(f.Name) != nil || f.Required && (f.Sec != "" || f.Inherited || f.FromRef) {
			return false
		}
	}
	n := 0
	for _, f := range b.Attr.Type.Fields {
		if !f.Required && (n >= 2 || !spec.IsPrimitive(f.Type.Kind) || f.Sec != "" || f.Inherited || f.FromRef || o.Field(f.Name) != nil) {
			continue
		}
		var cp spec.Attr
		raw, _ := json.Marshal(f)
		json.Unmarshal(raw, &cp)
		cp.FromRef, cp.Required = true, f.Required || t.Draw("ref-required", 3) == 0
		if v := cp.Val; v != nil && t.Draw("ref-override", 2) == 0 {
			ov := &spec.Validation{}
			switch {
			case v.Max != nil:
				ov.Max = fp(*v.Max + 1000)
			case v.Min != nil:
				ov.Min = fp(*v.Min - 1000)
				if k := cp.Type.Kind; k == spec.UInt || k == spec.UInt32 || k == spec.UInt64 {
					ov.Min = fp(0)
				}
			case v.MaxLength != nil:
				ov.MaxLength = ip(*v.MaxLength + 8)
			case v.ExclMax != nil:
				ov.ExclMax = fp(*v.ExclMax + 1000)
			default:
				ov = nil
			}
			if ov != nil {
				cp.Override = ov
				merged := *v
				if ov.Max != nil {
					merged.Max = ov.Max
				}
				if ov.Min != nil {
					merged.Min = ov.Min
				}
				if ov.MaxLength != nil {
					merged.MaxLength = ov.MaxLength
				}
				if ov.ExclMax != nil {
					merged.ExclMax = ov.ExclMax
				}
				cp.Val = &merged
				g.feat("type:reference-override")
			}
		}
		o.Fields = append(o.Fields, &cp)
		n++
	}
	if n == 0 {
		return false
	}
	o.Reference = b.Name
	g.feat("type:reference")
	return true
}

func (g *dgen) requiredOrDefault(f *spec.Attr) {
	t := g.t
	switch t.Draw("req", 4) {
	case 1, 2:
		f.Required = true
		g.feat("required")
	case 3:
		rk := g.d.Resolve(f.Type).Kind
		if f.Type.Kind == spec.User {
			return
		}
		switch {
		case spec.IsPrimitive(rk) && rk != spec.Bytes && rk != spec.Any:
			if dv := g.defaultFor(f, rk); dv != nil {
				f.Default, f.HasDef = dv, true
				g.feat("default:" + rk)
				if t.Draw("req+default", 3) == 0 {
					f.Required = true
					g.feat("required+default")
				}
			}
		case rk == spec.Array || rk == spec.Map:
			// a collection default (only collections of plain primitives, which Default() accepts as typed Go values)
			rt := g.d.Resolve(f.Type)
			ok := func(a *spec.Attr) bool {
				k := a.Type.Kind
				return spec.IsPrimitive(k) && k != spec.Bytes && k != spec.Any
			}
			if !ok(rt.Elem) || rk == spec.Map && rt.Key.Type.Kind != spec.String {
				return
			}
			tt := verifsim.LenientTape(nil)
			v := GenValid(tt, g.d, f, GenOpts{Loc: LocBody, NonEmpty: true})
			if dv := jsonable(v); dv != nil {
				f.Default, f.HasDef = dv, true
				g.feat("default:" + rk)
			}
		}
	}
}

// jsonable turns a model collection into the plain data a spec file holds.
func jsonable(v any) any {
	switch x := v.(type) {
	case []any:
		if len(x) == 0 {
			return nil
		}
		out := make([]any, len(x))
		for i, e := range x {
			out[i] = jsonable(e)
		}
		return out
	case *MapVal:
		if x == nil || len(x.K) == 0 {
			return nil
		}
		out := map[string]any{}
		for i, k := range x.K {
			out[fmt.Sprint(k)] = jsonable(x.V[i])
		}
		return out
	case int64:
		return float64(x)
	case uint64:
		return float64(x)
	}
	return v
}

// defaultFor picks a default that satisfies the attribute's validation.
func (g *dgen) defaultFor(f *spec.Attr, kind string) any {
	tt := verifsim.LenientTape(nil) // the smallest valid value, no draws consumed from the run's tape
	v := GenValid(tt, g.d, f, GenOpts{Loc: LocCookie, AvoidZero: true})
	switch x := v.(type) {
	case int64:
		return float64(x)
	case uint64:
		return float64(x)
	case float64, string, bool:
		return x
	}
	return nil
}

// aliasWithDefault may turn a primitive result attribute into one whose type is a named primitive that declares the
// default itself (Type("Tier", String, func() { Default("basic") })): the attribute declares none and takes it over.
func (g *dgen) aliasWithDefault(f *spec.Attr) *spec.Attr {
	k := f.Type.Kind
	if !spec.IsPrimitive(k) || k == spec.Bytes || k == spec.Any || g.t.Draw("alias-level-default", 8) != 0 {
		return nil
	}
	dv := g.defaultFor(f, k)
	if dv == nil {
		return nil
	}
	g.seq++
	base := *f
	base.Name, base.Default, base.HasDef = "", dv, true
	u := &spec.UserType{Name: fmt.Sprintf("D%dAlias", g.seq), Attr: &base, NoReuse: true}
	g.d.Types = append(g.d.Types, u)
	g.feat("default:alias-level")
	return &spec.Attr{Type: &spec.Type{Kind: spec.User, Name: u.Name}, Default: dv, HasDef: true, DefFromAlias: true}
}

func sortedAttrNames(m map[string]string) []string {
	ks := make([]string, 0, len(m))
	for k := range m {
		ks = append(ks, k)
	}
	sort.Strings(ks)
	return ks
}

// method draws one method with its HTTP mapping.
func (g *dgen) method(svc *spec.Service, idx int) *spec.Method {
	t := g.t
	m := &spec.Method{Name: []string{"create", "show", "list_items", "update", "remove", "do_it"}[idx%6]}
	if idx >= 6 {
		m.Name += fmt.Sprint(idx)
	}
	m.Params, m.Headers, m.Cookies = map[string]string{}, map[string]string{}, map[string]string{}
	// ---- payload
	path := "/" + svc.Name + "/" + m.Name
	hasBody := false
	plain := false
	var pathParams []*spec.Attr
	lastIsParam := false
	if t.Draw("payload-not-an-object", 9) == 0 {
		// the payload is a primitive, an array or a map: it is the whole request body
		m.Payload = g.nonObject("payload")
		hasBody, plain = true, true
		if len(svc.Security) > 0 || len(g.d.Security) > 0 {
			m.NoSec = true // credentials are payload attributes: a payload without attributes cannot carry any
		}
	} else if t.Draw("has-payload", 8) != 7 {
		p := &spec.Type{Kind: spec.Object}
		nf := 1 + t.Draw("npayload", 6)
		off := t.Draw("name-off", len(g.names()))
		for i := 0; i < nf; i++ {
			name := g.names()[(off+i*5)%len(g.names())]
			for p.Field(name) != nil {
				name += "x"
			}
			var f *spec.Attr
			loc := Loc(t.Pick("loc", 4, 2, 3, 2, 1)) // body path query header cookie
			switch loc {
			case LocPath:
				f = g.prim(LocPath)
				if k := f.Type.Kind; k == spec.Float32 || k == spec.Float64 {
					f = &spec.Attr{Type: &spec.Type{Kind: spec.String}}
				}
				f.Name, f.Required = name, true
				path += "/{" + name + "}"
				pathParams, lastIsParam = append(pathParams, f), true
				if t.Draw("path-lit", 2) == 0 {
					path += "/" + []string{"x", "sub", "v1"}[t.Draw("lit", 3)]
					lastIsParam = false
				}
				g.feat("loc:path")
			case LocQuery, LocHeader:
				if loc == LocQuery && t.Draw("map-param", 7) == 0 {
					// a map in the query string: key[k]=v (values may repeat for array elements)
					el := g.prim(loc)
					for el.Type.Kind == spec.Bytes || el.Type.Kind == spec.Any {
						el = g.prim(loc)
					}
					if t.Draw("map-param-array", 3) == 0 {
						el = &spec.Attr{Type: &spec.Type{Kind: spec.Array, Elem: el}}
					}
					f = &spec.Attr{Type: &spec.Type{Kind: spec.Map, Key: &spec.Attr{Type: &spec.Type{Kind: spec.String}}, Elem: el}}
					g.feat("loc:query-map")
				} else if t.Draw("arr-param", 4) == 0 {
					el := g.prim(loc)
					f = &spec.Attr{Type: &spec.Type{Kind: spec.Array, Elem: el}}
					f.Val = g.validation(spec.Array, loc)
					g.feat("loc:" + loc.String() + "-array")
				} else {
					f = g.prim(loc)
					if k := f.Type.Kind; k != spec.Bytes && k != spec.Any && t.Draw("alias-param", 6) == 0 {
						// the parameter's type is a named primitive (Type("Token", String)): decoded as the
						// primitive, converted to the named type on its way into the payload
						g.seq++
						u := &spec.UserType{Name: fmt.Sprintf("A%dAlias", g.seq), Attr: f}
						g.d.Types = append(g.d.Types, u)
						f = &spec.Attr{Type: &spec.Type{Kind: spec.User, Name: u.Name}}
						g.feat("loc:" + loc.String() + "-alias")
					}
				}
				f.Name = name
				g.requiredOrDefault(f)
				if loc == LocQuery {
					m.Params[name] = []string{name, "q_" + name, name}[t.Draw("qname", 3)]
					g.feat("loc:query")
					// the query key may be spelled like ANOTHER attribute of the payload that travels in the body
					// (Param("filter:q") next to a body attribute q): two different things in two different places
					var bodyNames []string
					for _, pf := range p.Fields {
						_, q := m.Params[pf.Name]
						_, h := m.Headers[pf.Name]
						_, c := m.Cookies[pf.Name]
						if !q && !h && !c && !strings.Contains(path, "{"+pf.Name+"}") && pf.Sec == "" {
							bodyNames = append(bodyNames, pf.Name)
						}
					}
					if len(bodyNames) > 0 && t.Draw("qname-like-body-attribute", 6) == 0 {
						cand := bodyNames[t.Draw("which-body-name", len(bodyNames))]
						taken := false
						for _, k := range m.Params {
							taken = taken || k == cand
						}
						if !taken {
							m.Params[name] = cand
							g.feat("loc:query-key-named-like-body-attribute")
						}
					}
				} else {
					m.Headers[name] = "X-" + []string{"Foo", "Bar-Baz", "Q"}[t.Draw("hname", 3)] + fmt.Sprint(i)
					g.feat("loc:header")
				}
			case LocCookie:
				// goa generates uncompilable code for non-string cookies (C01 territory,
				// recorded as a by-product): the envelope keeps cookies to strings
				f = &spec.Attr{Type: &spec.Type{Kind: spec.String}}
				f.Val = g.validation(spec.String, LocCookie)
				f.Name = name
				g.requiredOrDefault(f)
				m.Cookies[name] = "c_" + name
				g.feat("loc:cookie")
			default:
				f = g.bodyType(2 + t.Pick("deep-body", 3, 1)) // one body attribute in four may nest one level deeper (arrays of arrays of types, ...)
				f.Name = name
				g.requiredOrDefault(f)
				hasBody = true
				g.feat("loc:body")
			}
			p.Fields = append(p.Fields, f)
		}
		if g.extend(p) {
			hasBody = true // the inherited attributes are not mapped anywhere: they travel in the body
			g.feat("payload:extend")
		} else if g.reference(p) {
			hasBody = true // likewise the attributes taken from a referenced type
			g.feat("payload:reference")
		}
		m.Payload = &spec.Attr{Type: p}
		if hasBody && t.Draw("payload-user-type", 4) == 0 {
			// the payload itself is a named type
			g.seq++
			u := &spec.UserType{Name: fmt.Sprintf("P%dPayload", g.seq), Attr: &spec.Attr{Type: p}}
			g.d.Types = append(g.d.Types, u)
			m.Payload = &spec.Attr{Type: &spec.Type{Kind: spec.User, Name: u.Name}}
			g.feat("payload:user-type")
		}
	} else {
		g.feat("payload:none")
	}
	// a trailing string path parameter may be a catch-all: {*name} takes the rest of the path, slashes included
	star, sibling, ownPath := false, false, ""
	if n := len(pathParams); n > 0 && lastIsParam && pathParams[n-1].Type.Kind == spec.String && pathParams[n-1].Val == nil && t.Draw("catch-all", 2) == 0 {
		last := pathParams[n-1].Name
		path = strings.TrimSuffix(path, "/{"+last+"}") + "/{*" + last + "}"
		star = true
		g.feat("loc:path-catch-all")
		// the other path parameters of such a route never hold a '/' (value generation takes it out: the recorded
		// "'/' sent unescaped" defect would push everything after it into the wildcard), so their enums must not
		// ask for one
		for _, pp := range pathParams[:n-1] {
			if pp.Val == nil || len(pp.Val.Enum) == 0 {
				continue
			}
			var keep []any
			for _, e := range pp.Val.Enum {
				if sv, ok := e.(string); !ok || !strings.Contains(sv, "/") {
					keep = append(keep, e)
				}
			}
			if pp.Val.Enum = keep; len(keep) == 0 {
				pp.Val = nil
			}
		}
		// ... and may share its path with the previous catch-all route of the service, under another verb and
		// another wildcard name (GET /files/{*path}, PUT /files/{*name})
		if false && n == 1 && g.prevStar != nil && t.Draw("catch-all-sibling", 4) != 0 { // (superseded by catchAllSibling: two mechanisms could give two methods the same verb on one path)
			sibling, ownPath = true, path
			path = g.prevStar.prefix + "/{*" + last + "}"
		}
	}
	if !plain {
		g.secure(svc, m, &path)
	}
	verb := "GET"
	if hasBody {
		// (a body under GET or DELETE is unusual but legal: goa generates both sides for it)
		verb = []string{"POST", "PUT", "PATCH", "POST", "PUT", "PATCH", "POST", "GET", "DELETE"}[t.Draw("verb-body", 9)]
		if verb == "GET" || verb == "DELETE" {
			g.feat("verb:" + verb + "-with-body")
		}
	} else if t.Draw("verb-nobody", 3) == 0 {
		verb = []string{"DELETE", "POST"}[t.Draw("verb2", 2)]
	}
	if sibling {
		class := []string{"GET", "DELETE", "POST"}
		if hasBody {
			class = []string{"POST", "PUT", "PATCH"}
		}
		ok := false
		for _, v := range append([]string{verb}, class...) {
			if !g.prevStar.verbs[v] {
				verb, ok = v, true
				break
			}
		}
		if ok {
			g.prevStar.verbs[verb] = true
			g.feat("loc:path-catch-all-sibling")
		} else {
			path, sibling = ownPath, false
		}
	}
	if star && !sibling && len(pathParams) == 1 {
		g.prevStar = &starRoute{prefix: path[:strings.Index(path, "/{*")], verbs: map[string]bool{verb: true}}
	}
	m.Routes = []*spec.Route{{Verb: verb, Path: path}}
	if t.Draw("second-route", 4) == 0 {
		// the same method reachable under a second path (and possibly verb)
		v2 := verb
		if hasBody && t.Draw("second-route-verb", 2) == 0 {
			v2 = map[string]string{"POST": "PUT", "PUT": "PATCH", "PATCH": "POST", "GET": "POST", "DELETE": "PUT"}[verb]
		}
		m.Routes = append(m.Routes, &spec.Route{Verb: v2, Path: "/r2" + path})
		g.feat("routes:two")
	}
	// ---- result
	status := 200
	if g.chance("viewed-result", "views", 1, 3, 4) {
		// the result is a result type with views, all attributes in the body
		var u *spec.UserType
		var have []*spec.UserType
		for _, x := range g.d.Types {
			if x.IsResult {
				have = append(have, x)
			}
		}
		if len(have) > 0 && t.Draw("rt-reuse", 2) == 0 {
			u = have[t.Draw("rt-which", len(have))]
		} else {
			u = g.newResultType()
		}
		m.Result = &spec.Attr{Type: &spec.Type{Kind: spec.User, Name: u.Name}}
		if len(u.Views) > 1 && t.Draw("fixed-view", 4) == 0 {
			m.FixedView = u.Views[t.Draw("which-view", len(u.Views))].Name
			g.feat("views:fixed")
		}
		m.Responses = []*spec.Response{{Status: 200}}
		g.feat("result:result-type")
		if g.chance("result-collection", "views", 1, 2, 6) {
			m.Collection = true // CollectionOf(u): every element rendered with the chosen view
			g.feat("result:collection")
			if m.FixedView == "" && len(u.Views) > 1 && t.Draw("collection-fixed-view", 2) == 0 {
				m.FixedView = u.Views[t.Draw("which-view", len(u.Views))].Name
				g.feat("views:fixed")
			}
			if m.FixedView != "" {
				g.feat("result:collection-fixed-view:" + m.FixedView)
			}
		}
		if !m.Collection && t.Draw("viewed-result-header", 4) == 0 {
			// one primitive attribute that EVERY view of the result type contains (goa requires that) travels in a
			// response header (an ETag, a revision): it is then no part of the body for THIS method - other methods
			// returning the type keep it there
			for _, f := range u.Attr.Type.Fields {
				inAll := true
				for _, v := range u.Views {
					has := false
					for _, fn := range v.Fields {
						has = has || fn == f.Name
					}
					inAll = inAll && has
				}
				if k := f.Type.Kind; inAll && (k == spec.String || k == spec.Int || k == spec.Int64 || k == spec.UInt32) && f.Val == nil && !f.HasDef {
					if k == spec.String && t.Draw("viewed-attribute-in-cookie", 2) == 0 {
						m.Responses[0].Cookies = map[string]string{f.Name: "vc_" + f.Name}
						g.feat("views:cookie-mapped-attribute")
						break
					}
					m.Responses[0].Headers = map[string]string{f.Name: "X-V-" + strings.ReplaceAll(f.Name, "_", "-")}
					g.feat("views:header-mapped-attribute")
					break
				}
			}
		}
	} else if t.Draw("result-not-an-object", 8) == 0 {
		m.Result = g.nonObject("result")
		m.Responses = []*spec.Response{{Status: []int{200, 201, 202}[t.Pick("status", 4, 1, 1)]}}
	} else if t.Draw("has-result", 6) != 5 {
		r := &spec.Type{Kind: spec.Object}
		resp := &spec.Response{Status: []int{200, 201, 202}[t.Pick("status", 4, 1, 1)], Headers: map[string]string{}, Cookies: map[string]string{}}
		nf := 1 + t.Draw("nresult", 5)
		off := t.Draw("name-off", len(g.names()))
		for i := 0; i < nf; i++ {
			name := g.names()[(off+i*7)%len(g.names())]
			for r.Field(name) != nil {
				name += "y"
			}
			var f *spec.Attr
			rl := t.Pick("rloc", 5, 2, 1)
			if g.focus == "dir" && rl == 0 && t.Draw("rloc-dir", 2) == 0 {
				rl = 2 // generated documents list headers and cookies: more of them
			}
			switch rl {
			case 1:
				f = g.prim(LocHeader)
				f.Name = name
				if af := g.aliasWithDefault(f); af != nil {
					f = af
					f.Name = name
				} else {
					g.requiredOrDefault(f)
				}
				resp.Headers[name] = "X-R-" + []string{"Foo", "Bar-Baz", "Z"}[t.Draw("hname", 3)] + fmt.Sprint(i)
				g.feat("rloc:header")
			case 2:
				f = &spec.Attr{Type: &spec.Type{Kind: spec.String}}
				f.Val = g.validation(spec.String, LocCookie)
				f.Name = name
				g.requiredOrDefault(f)
				resp.Cookies[name] = "rc_" + name
				g.feat("rloc:cookie")
			default:
				f = g.bodyType(2 + t.Pick("deep-body", 3, 1)) // one body attribute in four may nest one level deeper (arrays of arrays of types, ...)
				f.Name = name
				if af := g.aliasWithDefault(f); af != nil {
					f = af
					f.Name = name
				} else {
					g.requiredOrDefault(f)
				}
				g.feat("rloc:body")
			}
			r.Fields = append(r.Fields, f)
		}
		m.Result = &spec.Attr{Type: r}
		if t.Draw("result-user-type", 4) == 0 {
			g.seq++
			u := &spec.UserType{Name: fmt.Sprintf("R%dResult", g.seq), Attr: &spec.Attr{Type: r}}
			g.d.Types = append(g.d.Types, u)
			m.Result = &spec.Attr{Type: &spec.Type{Kind: spec.User, Name: u.Name}}
			g.feat("result:user-type")
		}
		m.Responses = []*spec.Response{resp}
		status = resp.Status
		// a second success response selected by a tag value, with its own status and media type
		if g.chance("tagged-response", "dir", 1, 3, 4) {
			tagName := "state"
			for r.Field(tagName) != nil {
				tagName += "t"
			}
			r.Fields = append(r.Fields, &spec.Attr{Name: tagName, Type: &spec.Type{Kind: spec.String}, Required: true,
				Val: &spec.Validation{Enum: []any{"done", "pending", "queued"}}})
			second := &spec.Response{Status: []int{202, 201, 200}[t.Draw("status2", 3)], Headers: resp.Headers, Cookies: resp.Cookies, TagAttr: tagName, TagVal: "pending"}
			if second.Status == resp.Status {
				second.Status = 206
			}
			if g.chance("response-ct", "dir", 1, 2, 2) {
				// media types that still mean JSON, so every oracle keeps reading the body
				resp.CT = "application/json"
				second.CT = "application/vnd.verif.pending+json"
				g.feat("response:content-types")
			}
			m.Responses = []*spec.Response{second, resp}
			g.feat("response:tagged")
		}
	} else {
		g.feat("result:none")
		m.Responses = []*spec.Response{{Status: []int{204, 200, 202}[t.Draw("status-empty", 3)]}}
	}
	_ = status
	for _, r := range m.Responses {
		if t.Draw("code-inside-response", 4) == 0 {
			r.CodeInside = true // the two spellings of a response's status code mean the same
			g.feat("response:code-inside")
		}
	}
	// ---- the service-level error, redeclared by name (its HTTP response stays the service's)
	if g.svcLevelErr != "" && t.Draw("redeclare-service-error", 2) == 0 {
		for _, e := range svc.Errors {
			if e.Name == g.svcLevelErr {
				cp := *e
				cp.Inherit = "service"
				m.Errors = append(m.Errors, &cp)
				g.feat("errors:service-level-redeclared")
			}
		}
	}
	// ---- errors: picked from the service's pool, so that one error name means one thing per service
	ne := t.Pick("nerrors", 3, 3, 2, 1)
	used := map[int]bool{}
	for i := 0; i < ne && len(svc.Errors) > 0; i++ {
		e := svc.Errors[(i+t.Draw("err-off", len(svc.Errors)))%len(svc.Errors)]
		dup := false
		for _, x := range m.Errors {
			if x.Name == e.Name {
				dup = true
			}
		}
		if dup || e.Name == g.svcLevelErr {
			continue
		}
		if used[e.Status] {
			g.feat("errors:shared-status")
		}
		used[e.Status] = true
		cp := *e
		m.Errors = append(m.Errors, &cp)
		g.feat("errors:declared")
	}
	return m
}

// customError may give a pool error a designed type of its own: a string, or an
// object type (possibly shared with an earlier error of the service, told apart by
// its ErrorName attribute), optionally with one attribute carried in a header.
func (g *dgen) customError(s *spec.Service, e *spec.ErrorDef) {
	t := g.t
	k := t.Pick("err-type", 6, 1, 2, 2)
	if k == 0 {
		if t.Draw("err-empty-body", 5) == 0 {
			e.EmptyBody = true // a default-type error without a body: its attributes travel in goa-attribute-* headers
			g.feat("errors:empty-body")
		}
		return
	}
	e.Temporary, e.Timeout, e.Fault = false, false, false // flags belong to the default error type
	if k == 1 {
		e.Type = &spec.Type{Kind: spec.String}
		g.feat("errors:custom-string")
		return
	}
	if k == 3 {
		for _, x := range s.Errors {
			if x.Type != nil && x.Type.Kind == spec.User && x.NameField != "" {
				e.Type, e.NameField, e.Headers = x.Type, x.NameField, x.Headers
				g.feat("errors:custom-shared-type")
				if t.Draw("shared-type-other-mapping", 2) == 0 {
					// same Go type, same status code, ANOTHER response mapping: only the goa-error header tells the
					// client which layout it is reading
					e.Status = x.Status
					if x.Headers == nil {
						e.Headers = map[string]string{"code": "X-Err-Code"}
					} else {
						e.Headers = nil
					}
					g.feat("errors:shared-type-and-status-other-mapping")
				}
				return
			}
		}
	}
	g.seq++
	obj := &spec.Type{Kind: spec.Object}
	obj.Fields = append(obj.Fields, &spec.Attr{Name: "message", Type: &spec.Type{Kind: spec.String}, Required: true})
	if k == 3 || t.Draw("err-name-field", 3) != 0 {
		e.NameField = "name"
		obj.Fields = append(obj.Fields, &spec.Attr{Name: "name", Type: &spec.Type{Kind: spec.String}, Required: true, ErrName: true})
	}
	code := g.prim(LocHeader)
	for code.Type.Kind == spec.Bytes || code.Type.Kind == spec.Any {
		code = g.prim(LocHeader)
	}
	code.Name = "code"
	g.requiredOrDefault(code)
	obj.Fields = append(obj.Fields, code)
	if t.Draw("err-detail", 2) == 0 {
		f := g.bodyType(1)
		f.Name = "detail"
		g.requiredOrDefault(f)
		obj.Fields = append(obj.Fields, f)
	}
	u := &spec.UserType{Name: fmt.Sprintf("E%dFailure", g.seq), Attr: &spec.Attr{Type: obj}, IsError: true}
	g.d.Types = append(g.d.Types, u)
	e.Type = &spec.Type{Kind: spec.User, Name: u.Name}
	if t.Draw("err-header", 2) == 0 {
		e.Headers = map[string]string{"code": "X-Err-Code"}
		g.feat("errors:custom-header")
	}
	g.feat("errors:custom-object")
}

// GenDesign draws one design named name.
func GenDesign(t *verifsim.Tape, name, focus string) *spec.Design {
	g := &dgen{t: t, d: &spec.Design{Name: name}, feats: map[string]bool{}, focus: focus}
	g.security()
	ns := 1 + t.Pick("nservices", 5, 2, 1)
	for i := 0; i < ns; i++ {
		s := &spec.Service{Name: []string{"alpha", "beta_svc", "gamma"}[i]}
		if t.Draw("svc-path", 3) == 0 {
			s.Path = "/api/" + s.Name
			g.feat("service:base-path")
		}
		// error pool of the service (declared per method, same meaning everywhere)
		for k, en := range []string{"not_found", "conflict", "bad_state", "too_busy", "internal"} {
			e := &spec.ErrorDef{Name: en, Status: []int{404, 409, 422, 503, 500, 400}[(k+t.Draw("err-status", 6))%6]}
			switch t.Draw("err-flags", 5) {
			case 1:
				e.Temporary = true
			case 2:
				e.Timeout = true
			case 3:
				e.Fault = true
			case 4:
				e.Temporary, e.Timeout = true, true
			}
			if len(s.Errors) > 0 && t.Draw("err-same-status", 3) == 0 {
				e.Status = s.Errors[len(s.Errors)-1].Status // told apart by the goa-error header only
			}
			g.customError(s, e)
			s.Errors = append(s.Errors, e)
		}
		if len(g.d.Schemes) > 0 && t.Draw("svc-security", 3) == 0 {
			s.Security = g.requirements()
			g.feat("security:service-level")
		}
		g.svcLevelErr = ""
		g.prevStar = nil
		if t.Draw("svc-level-error", 3) == 0 {
			se := s.Errors[t.Draw("which-svc-error", len(s.Errors))]
			g.svcLevelErr = se.Name
			se.EmptyBody = false // goa refuses Body(...) in a response mapped at service level
			g.feat("errors:service-level")
		}
		nm := 1 + t.Pick("nmethods", 3, 3, 2, 1)
		for j := 0; j < nm; j++ {
			m := g.method(s, j)
			s.Methods = append(s.Methods, m)
			if tw := g.catchAllSibling(m); tw != nil {
				s.Methods = append(s.Methods, tw)
			}
		}
		pool := s.Errors
		s.Errors = nil // the pool is only declared on the methods that use it ...
		for _, e := range pool {
			if e.Name == g.svcLevelErr {
				s.Errors = []*spec.ErrorDef{e} // ... except the one every method of the service inherits
			}
		}
		g.d.Services = append(g.d.Services, s)
	}
	if t.Draw("api-level-error", 4) == 0 {
		// an error whose HTTP response is mapped once at API level; methods opt in by declaring its name
		e := &spec.ErrorDef{Name: "api_wide", Status: []int{418, 429, 451}[t.Draw("api-err-status", 3)]}
		e.Temporary = t.Draw("api-err-tmp", 2) == 0
		g.d.Errors = []*spec.ErrorDef{e}
		for _, s := range g.d.Services {
			// a service may map the same error name to a response of its own: the closer mapping wins
			var own *spec.ErrorDef
			if t.Draw("service-remaps-api-error", 3) == 0 {
				o := *e
				o.Status = map[int]int{418: 429, 429: 451, 451: 418}[e.Status]
				own = &o
			}
			used := false
			for _, m := range s.Methods {
				if t.Draw("uses-api-error", 2) == 0 {
					cp := *e
					cp.Inherit = "api"
					if own != nil {
						cp.Status, cp.Inherit = own.Status, "service"
						used = true
					}
					m.Errors = append(m.Errors, &cp)
					g.feat("errors:api-level")
				}
			}
			if used {
				s.Errors = append(s.Errors, own)
				g.feat("errors:api-level-remapped-by-service")
			}
		}
	}
	if g.focus == "dir" {
		g.showcase()
	}
	for f := range g.feats {
		g.d.Features = append(g.d.Features, f)
	}
	sort.Strings(g.d.Features)
	return g.d
}

// catchAllSibling returns, for a method whose only path parameter is a catch-all, a second method mounted on the
// SAME path under another verb with the wildcard named differently (GET /files/{*path}, DELETE /files/{*target}):
// the usual REST shape, and the one where a router that remembers wildcard names per path mixes them up.
func (g *dgen) catchAllSibling(m *spec.Method) *spec.Method {
	r := m.Routes[0]
	i := strings.Index(r.Path, "/{*")
	if i < 0 || strings.Count(r.Path, "{") != 1 || m.Payload == nil || m.Payload.Type.Kind != spec.Object || g.t.Draw("catch-all-sibling", 2) != 0 {
		return nil
	}
	old := strings.Trim(r.Path[i+1:], "{*}")
	var tw spec.Method
	b, _ := json.Marshal(m)
	if json.Unmarshal(b, &tw) != nil {
		return nil
	}
	nn := old + "_too"
	f := tw.Payload.Type.Field(old)
	if f == nil || tw.Payload.Type.Field(nn) != nil {
		return nil
	}
	f.Name = nn
	tw.Name = m.Name + "_too"
	used := map[string]bool{}
	for _, x := range m.Routes {
		used[x.Verb] = true
	}
	class := []string{"GET", "DELETE", "POST"}
	if r.Verb == "PUT" || r.Verb == "PATCH" || (r.Verb == "POST" && len(bodyFieldNames(&tw)) > 0) {
		class = []string{"POST", "PUT", "PATCH"}
	}
	verb := ""
	for _, v := range class {
		if !used[v] {
			verb = v
			break
		}
	}
	if verb == "" {
		return nil
	}
	tw.Routes = []*spec.Route{{Verb: verb, Path: r.Path[:i] + "/{*" + nn + "}"}}
	g.feat("loc:path-catch-all-sibling")
	return &tw
}

// bodyFieldNames lists the payload attributes of m that are not mapped to the path, the query, a header or a cookie.
func bodyFieldNames(m *spec.Method) []string {
	var out []string
	if m.Payload == nil || m.Payload.Type.Kind != spec.Object {
		return nil
	}
	for _, f := range m.Payload.Type.Fields {
		_, q := m.Params[f.Name]
		_, h := m.Headers[f.Name]
		_, c := m.Cookies[f.Name]
		inPath := false
		for _, r := range m.Routes {
			if strings.Contains(r.Path, "{"+f.Name+"}") || strings.Contains(r.Path, "{*"+f.Name+"}") {
				inPath = true
			}
		}
		if !q && !h && !c && !inPath && f.Sec != "username" && f.Sec != "password" {
			out = append(out, f.Name)
		}
	}
	return out
}

// showcase adds, to designs whose generated FILES are what is judged (C09), one method whose payload and
// result is a type with an attribute of every string format and every primitive kind: goa writes an example
// value for each of them into the OpenAPI documents and the CLI, each through its own generator, and "a
// function of the design alone" has to hold for every one of them.
func (g *dgen) showcase() {
	o := &spec.Type{Kind: spec.Object}
	for _, f := range []string{"date", "date-time", "uuid", "email", "hostname", "ipv4", "ipv6", "ip", "uri", "mac", "cidr", "regexp", "json", "rfc1123"} {
		o.Fields = append(o.Fields, &spec.Attr{Name: "f_" + strings.NewReplacer("-", "_").Replace(f), Type: &spec.Type{Kind: spec.String}, Val: &spec.Validation{Format: f}})
	}
	for _, k := range []string{spec.Boolean, spec.Int, spec.Int32, spec.Int64, spec.UInt, spec.UInt32, spec.UInt64, spec.Float32, spec.Float64, spec.String, spec.Bytes, spec.Any} {
		o.Fields = append(o.Fields, &spec.Attr{Name: "k_" + k, Type: &spec.Type{Kind: k}})
	}
	o.Fields = append(o.Fields,
		&spec.Attr{Name: "k_array", Type: &spec.Type{Kind: spec.Array, Elem: &spec.Attr{Type: &spec.Type{Kind: spec.String}, Val: &spec.Validation{Format: "uuid"}}}},
		&spec.Attr{Name: "k_map", Type: &spec.Type{Kind: spec.Map, Key: &spec.Attr{Type: &spec.Type{Kind: spec.String}}, Elem: &spec.Attr{Type: &spec.Type{Kind: spec.Int}}}},
		&spec.Attr{Name: "k_pattern", Type: &spec.Type{Kind: spec.String}, Val: &spec.Validation{Pattern: "^[a-f0-9]{4,8}$"}},
		&spec.Attr{Name: "k_enum", Type: &spec.Type{Kind: spec.String}, Val: &spec.Validation{Enum: []any{"red", "green", "blue"}}},
		&spec.Attr{Name: "k_range", Type: &spec.Type{Kind: spec.Int}, Val: &spec.Validation{Min: fp(3), Max: fp(900)}},
		&spec.Attr{Name: "k_len", Type: &spec.Type{Kind: spec.String}, Val: &spec.Validation{MinLength: ip(3), MaxLength: ip(40)}},
		// validations no value satisfies (legal, if unusual): the example generator gives up after a fixed number of attempts
		&spec.Attr{Name: "k_conflict", Type: &spec.Type{Kind: spec.String}, Val: &spec.Validation{Format: "email", Pattern: "^[0-9]+$"}},
		&spec.Attr{Name: "k_conflict2", Type: &spec.Type{Kind: spec.String}, Val: &spec.Validation{Format: "ipv4", Pattern: "^fe80:"}})
	u := &spec.UserType{Name: "Showcase", Attr: &spec.Attr{Type: o}}
	g.d.Types = append(g.d.Types, u)
	svc := g.d.Services[0]
	m := &spec.Method{Name: "showcase", Params: map[string]string{}, Headers: map[string]string{}, Cookies: map[string]string{},
		Payload: &spec.Attr{Type: &spec.Type{Kind: spec.User, Name: u.Name}}, Result: &spec.Attr{Type: &spec.Type{Kind: spec.User, Name: u.Name}},
		Routes: []*spec.Route{{Verb: "POST", Path: "/" + svc.Name + "/showcase"}}, Responses: []*spec.Response{{Status: 200}}, NoSec: len(svc.Security) > 0 || len(g.d.Security) > 0}
	svc.Methods = append(svc.Methods, m)
	g.feat("dir:showcase")
}

// ---------------------------------------------------------------------------
// security
// ---------------------------------------------------------------------------

var schemeKinds = []string{"basic", "apikey", "jwt", "oauth2"}

// security draws the design's schemes (at most one per kind: a payload can
// carry one credential attribute of each kind) and the API-level requirements.
func (g *dgen) security() {
	t := g.t
	if !g.chance("has-security", "security", 2, 3, 3) {
		return
	}
	for i, k := range schemeKinds {
		if g.chance("scheme-"+k, "security", 2, 3, 4) || (i == 3 && len(g.d.Schemes) == 0) {
			sc := &spec.Scheme{Name: []string{"basic_auth", "api_key", "jwt", "oauth"}[i], Kind: k}
			if k == "jwt" || k == "oauth2" {
				sc.Scopes = []string{"api:read", "api:write", "admin"}[:1+t.Draw("nscopes", 3)]
			}
			g.d.Schemes = append(g.d.Schemes, sc)
			g.feat("security:" + k)
		}
	}
	if t.Draw("api-security", 3) == 0 {
		g.d.Security = g.requirements()
		g.feat("security:api-level")
	}
}

// requirements draws 1-3 alternative requirements of 1-2 schemes each.
func (g *dgen) requirements() []*spec.Requirement {
	t := g.t
	if jwt, oa := g.schemeOfKind("jwt"), g.schemeOfKind("oauth2"); jwt != nil && oa != nil && g.chance("two-token-schemes", "security", 1, 4, 12) {
		// both bearer-token schemes on one method, as alternatives or together
		g.feat("security:two-token-schemes")
		if t.Draw("two-token-together", 3) == 0 {
			return []*spec.Requirement{{Schemes: []string{jwt.Name, oa.Name}}}
		}
		g.feat("security:alternatives")
		return []*spec.Requirement{{Schemes: []string{jwt.Name}}, {Schemes: []string{oa.Name}, Scopes: oa.Scopes[:1]}}
	}
	n := 1 + t.Pick("nreq", 4, 2, 1)
	var out []*spec.Requirement
	for i := 0; i < n; i++ {
		r := &spec.Requirement{}
		k := 1 + t.Pick("nschemes", 2, 1)
		off := t.Draw("scheme-off", len(g.d.Schemes))
		for j := 0; j < k && j < len(g.d.Schemes); j++ {
			sc := g.d.Schemes[(off+j)%len(g.d.Schemes)]
			r.Schemes = append(r.Schemes, sc.Name)
			if len(sc.Scopes) > 0 && len(r.Scopes) == 0 && t.Draw("req-scopes", 2) == 0 {
				r.Scopes = sc.Scopes[:1+t.Draw("nreqscopes", len(sc.Scopes))]
			}
		}
		out = append(out, r)
	}
	if n > 1 {
		g.feat("security:alternatives")
	}
	return out
}

// Effective returns the requirements that apply to a method.
func Effective(d *spec.Design, s *spec.Service, m *spec.Method) []*spec.Requirement {
	switch {
	case m.NoSec:
		return nil
	case len(m.Security) > 0:
		return m.Security
	case len(s.Security) > 0:
		return s.Security
	}
	return d.Security
}

func (d *dgen) scheme(name string) *spec.Scheme {
	for _, sc := range d.d.Schemes {
		if sc.Name == name {
			return sc
		}
	}
	return nil
}

// secure decides the method's own requirements and adds the credential
// attributes and their HTTP mapping to the payload.
func (g *dgen) secure(svc *spec.Service, m *spec.Method, path *string) {
	t := g.t
	if len(g.d.Schemes) == 0 {
		return
	}
	switch t.Draw("method-security", 5) {
	case 0:
		m.Security = g.requirements()
		g.feat("security:method-level")
	case 1:
		if len(svc.Security) > 0 || len(g.d.Security) > 0 {
			m.NoSec = true
			g.feat("security:no-security")
		}
	}
	reqs := Effective(g.d, svc, m)
	if len(reqs) == 0 {
		return
	}
	if m.Payload == nil {
		m.Payload = &spec.Attr{Type: &spec.Type{Kind: spec.Object}}
	}
	pt := g.d.Resolve(m.Payload.Type)
	inAll := func(name string) bool {
		for _, r := range reqs {
			found := false
			for _, s := range r.Schemes {
				if s == name {
					found = true
				}
			}
			if !found {
				return false
			}
		}
		return true
	}
	used := map[string]bool{}
	hasBasic := false
	for _, r := range reqs {
		for _, s := range r.Schemes {
			if g.scheme(s).Kind == "basic" {
				hasBasic = true
			}
		}
	}
	add := func(name, sec string, req bool) *spec.Attr {
		for pt.Field(name) != nil {
			name += "c"
		}
		a := &spec.Attr{Name: name, Type: &spec.Type{Kind: spec.String}, Sec: sec, Required: req}
		pt.Fields = append(pt.Fields, a)
		return a
	}
	authTaken := func() bool {
		if hasBasic {
			return true
		}
		for _, h := range m.Headers {
			if h == "Authorization" {
				return true
			}
		}
		return false
	}
	for _, r := range reqs {
		for _, sn := range r.Schemes {
			if used[sn] {
				continue
			}
			used[sn] = true
			sc := g.scheme(sn)
			req := inAll(sn) && t.Draw("cred-required", 2) == 0
			switch sc.Kind {
			case "basic":
				add("username", "username", req)
				add("password", "password", req)
			case "apikey":
				a := add("key", "apikey:"+sc.Name, req)
				switch t.Draw("apikey-in", 3) {
				case 0:
					m.Params[a.Name] = "k"
					g.feat("security:apikey-query")
				case 1:
					m.Headers[a.Name] = "X-API-Key"
					g.feat("security:apikey-header")
				default:
					if authTaken() {
						m.Headers[a.Name] = "X-API-Key"
					} else {
						m.Headers[a.Name] = "Authorization"
						g.feat("security:apikey-authorization")
					}
				}
			case "jwt", "oauth2":
				sec, nm := "token", "token"
				if sc.Kind == "oauth2" {
					sec, nm = "accesstoken", "access_token"
				}
				a := add(nm, sec, req)
				authFree := !authTaken()
				if other := g.tokenOnAuthorization(m, pt); other != nil && other != a && g.chance("shared-authorization", "security", 2, 4, 5) {
					// two token schemes read the same Authorization header: the caller gives one
					// credential and both callbacks receive it
					m.Headers[a.Name] = "Authorization"
					a.Required, other.Required = false, false
					g.feat("security:shared-authorization")
					if m.ImplicitHeaders[other.Name] && t.Draw("implicit-authorization", 2) == 0 {
						m.ImplicitHeaders[a.Name] = true // both credentials left to goa's implicit mapping
						g.feat("security:shared-authorization-implicit")
					}
					continue
				}
				switch t.Pick("token-in", 3, 1, 1) {
				case 0:
					if authFree {
						m.Headers[a.Name] = "Authorization"
						g.feat("security:bearer-authorization")
						if t.Draw("implicit-authorization", 2) == 0 {
							if m.ImplicitHeaders == nil {
								m.ImplicitHeaders = map[string]bool{}
							}
							m.ImplicitHeaders[a.Name] = true
							g.feat("security:implicit-authorization")
						}
					} else {
						m.Headers[a.Name] = "X-" + nm
					}
				case 1:
					m.Headers[a.Name] = "X-" + nm
					g.feat("security:token-custom-header")
				default:
					m.Params[a.Name] = nm
					g.feat("security:token-query")
				}
			}
		}
	}
}

func (g *dgen) schemeOfKind(k string) *spec.Scheme {
	for _, s := range g.d.Schemes {
		if s.Kind == k {
			return s
		}
	}
	return nil
}

// tokenOnAuthorization returns the JWT/OAuth2 credential attribute mapped to the Authorization header, if any.
func (g *dgen) tokenOnAuthorization(m *spec.Method, pt *spec.Type) *spec.Attr {
	for a, h := range m.Headers {
		if h == "Authorization" {
			if f := pt.Field(a); f != nil && (f.Sec == "token" || f.Sec == "accesstoken") {
				return f
			}
		}
	}
	return nil
}

// ---------------------------------------------------------------------------
// result types with views
// ---------------------------------------------------------------------------

// newResultType draws a result type with 1-3 views, possibly nesting an earlier one.
func (g *dgen) newResultType() *spec.UserType {
	t := g.t
	g.seq++
	u := &spec.UserType{Name: fmt.Sprintf("RT%dThing", g.seq), IsResult: true, Identifier: fmt.Sprintf("application/vnd.rt%d", g.seq)}
	o := &spec.Type{Kind: spec.Object}
	n := 2 + t.Draw("rt-nfields", 4)
	off := t.Draw("name-off", len(g.names()))
	for i := 0; i < n; i++ {
		var f *spec.Attr
		if t.Draw("rt-arr", 5) == 0 {
			f = &spec.Attr{Type: &spec.Type{Kind: spec.Array, Elem: g.prim(LocBody)}}
		} else {
			f = g.prim(LocBody)
		}
		f.Name = g.names()[(off+i*3)%len(g.names())]
		for o.Field(f.Name) != nil {
			f.Name += "v"
		}
		if t.Draw("rt-req", 2) == 0 {
			f.Required = true
		}
		o.Fields = append(o.Fields, f)
	}
	// nested result type (defined earlier), rendered with its default view or an override
	var earlier []*spec.UserType
	for _, x := range g.d.Types {
		if x.IsResult {
			earlier = append(earlier, x)
		}
	}
	if len(earlier) > 0 && g.chance("rt-nested", "views", 2, 3, 4) {
		nu := earlier[t.Draw("rt-which", len(earlier))]
		f := &spec.Attr{Name: "child", Type: &spec.Type{Kind: spec.User, Name: nu.Name}}
		if len(nu.Views) > 1 && t.Draw("rt-view-override", 2) == 0 {
			f.View = nu.Views[1+t.Draw("rt-ov", len(nu.Views)-1)].Name
			g.feat("views:attribute-override")
		}
		o.Fields = append(o.Fields, f)
		g.feat("views:nested")
		// a second attribute of the SAME nested result type, rendered with another view
		if len(nu.Views) > 1 && t.Draw("rt-second-child", 3) == 0 {
			f2 := &spec.Attr{Name: "sibling", Type: &spec.Type{Kind: spec.User, Name: nu.Name}}
			if f.View == "" {
				f2.View = nu.Views[1+t.Draw("rt-ov2", len(nu.Views)-1)].Name
			}
			// a primitive in between keeps clear of a goa defect with two adjacent
			// result-type attributes (recorded in DESIGN.md section 14 when met)
			o.Fields = append(o.Fields, &spec.Attr{Name: "spacer", Type: &spec.Type{Kind: spec.Int}}, f2)
			g.feat("views:same-type-two-views")
		}
	}
	// an ARRAY of a result type: its elements are rendered with their default view, or with the view a view of
	// the enclosing type names for the attribute (goa refuses a view set on the array attribute itself). The
	// element type has no required attributes: goa's client-side transforms dereference required attributes that
	// the rendered view left out (met while building this; an element type with required attributes panics on the
	// unchanged tree and would bury everything else).
	if g.chance("rt-array-of-rt", "views", 1, 2, 4) {
		g.seq++
		kid := &spec.UserType{Name: fmt.Sprintf("RT%dKid", g.seq), IsResult: true, Identifier: fmt.Sprintf("application/vnd.rt%dkid", g.seq)}
		ko := &spec.Type{Kind: spec.Object}
		for i, n := range []string{"kid_id", "kid_name", "kid_tags"}[:2+t.Draw("kid-nfields", 2)] {
			kf := g.prim(LocBody)
			if i == 2 {
				kf = &spec.Attr{Type: &spec.Type{Kind: spec.Array, Elem: g.prim(LocBody)}}
			}
			kf.Name, kf.Required, kf.HasDef, kf.Default = n, false, false, nil
			ko.Fields = append(ko.Fields, kf)
		}
		kid.Attr = &spec.Attr{Type: ko}
		kn := make([]string, len(ko.Fields))
		for i, kf := range ko.Fields {
			kn[i] = kf.Name
		}
		kid.Views = []*spec.View{{Name: "default", Fields: kn}, {Name: "tiny", Fields: kn[:1]}}
		if t.Draw("kid-default-partial", 2) == 0 {
			kid.Views = []*spec.View{{Name: "default", Fields: kn[1:]}, {Name: "tiny", Fields: kn[:1]}, {Name: "full", Fields: kn}}
		}
		g.d.Types = append(g.d.Types, kid)
		f := &spec.Attr{Name: "kids", Type: &spec.Type{Kind: spec.Array, Elem: &spec.Attr{Type: &spec.Type{Kind: spec.User, Name: kid.Name}}}}
		o.Fields = append(o.Fields, &spec.Attr{Name: "spacer3", Type: &spec.Type{Kind: spec.Int}}, f)
		g.feat("views:array-of-result-type")
	}
	// a nested result type that is a structural TWIN of the child's type (same attributes, another name,
	// other views): what tells the two apart is their name only
	if c := o.Field("child"); c != nil && g.chance("rt-twin", "views", 1, 2, 4) {
		nu := g.d.UserType(c.Type.Name)
		g.seq++
		tw := &spec.UserType{Name: fmt.Sprintf("RT%dTwin", g.seq), IsResult: true, Identifier: fmt.Sprintf("application/vnd.rt%dtwin", g.seq)}
		var cp spec.Attr
		b, _ := json.Marshal(nu.Attr)
		json.Unmarshal(b, &cp)
		tw.Attr = &cp
		names := make([]string, len(cp.Type.Fields))
		for i, f := range cp.Type.Fields {
			names[i] = f.Name
		}
		if len(nu.Views[0].Fields) == len(names) {
			tw.Views = []*spec.View{{Name: "default", Fields: names[:1]}}
		} else {
			tw.Views = []*spec.View{{Name: "default", Fields: names}}
		}
		for _, v := range nu.Views[1:] {
			tw.Views = append(tw.Views, &spec.View{Name: v.Name, Fields: names[len(names)-1:]})
		}
		g.d.Types = append(g.d.Types, tw)
		o.Fields = append(o.Fields, &spec.Attr{Name: "spacer2", Type: &spec.Type{Kind: spec.Int}}, &spec.Attr{Name: "twin", Type: &spec.Type{Kind: spec.User, Name: tw.Name}})
		g.feat("views:structural-twin")
	}
	u.Attr = &spec.Attr{Type: o}
	all := make([]string, len(o.Fields))
	for i, f := range o.Fields {
		all[i] = f.Name
	}
	switch t.Draw("rt-views", 4) {
	case 0:
		u.Views = []*spec.View{{Name: "default", Fields: all}}
		g.feat("views:single")
	case 1:
		u.Views = []*spec.View{{Name: "default", Fields: all}, {Name: "tiny", Fields: all[:1]}}
		g.feat("views:two")
	case 2:
		k := 1 + t.Draw("rt-default-k", len(all))
		u.Views = []*spec.View{{Name: "default", Fields: all[:k]}, {Name: "tiny", Fields: all[len(all)-1:]}, {Name: "full", Fields: all}}
		g.feat("views:three")
	default:
		k := 1 + t.Draw("rt-default-k", len(all))
		u.Views = []*spec.View{{Name: "default", Fields: all[:k]}, {Name: "extended", Fields: all}}
		g.feat("views:two-partial-default")
	}
	// per-view override of a nested attribute's view (wins over the view set on the attribute)
	for _, f := range o.Fields {
		if f.Name != "child" && f.Name != "kids" {
			continue
		}
		nu, _ := NestedRT(g.d, f)
		if nu == nil || len(nu.Views) < 2 || !g.chance("rt-view-level-override", "views", 2, 3, 4) {
			continue
		}
		for _, vw := range u.Views {
			has := false
			for _, fn := range vw.Fields {
				if fn == f.Name {
					has = true
				}
			}
			if has && t.Draw("rt-override-this-view", 2) == 0 {
				ov := nu.Views[t.Draw("rt-ovv", len(nu.Views))].Name
				if ov != f.View {
					if vw.Overrides == nil {
						vw.Overrides = map[string]string{}
					}
					vw.Overrides[f.Name] = ov
					g.feat("views:per-view-override")
				}
			}
		}
	}
	g.d.Types = append(g.d.Types, u)
	return u
}

// MatrixDesign is the one design of a batch that is not drawn: it enumerates how a user type can sit inside
// collections (array>array>T, map>array>T, array>map>T, map>map>T, array>T, map>T, T) for three flavours of T
// (only Required on primitives; validations; defaults), in request and response bodies. The validation and
// transformation code goa generates recurses over exactly these shapes with a context (pointer or not, required
// or not, use defaults or not) that changes at every level; random designs reach the deeper combinations rarely.
func MatrixDesign(name string) *spec.Design {
	d := &spec.Design{Name: name}
	prim := func(n, k string) *spec.Attr { return &spec.Attr{Name: n, Type: &spec.Type{Kind: k}} }
	req := func(a *spec.Attr) *spec.Attr { a.Required = true; return a }
	ut := func(n string, fs ...*spec.Attr) *spec.UserType {
		u := &spec.UserType{Name: n, Attr: &spec.Attr{Type: &spec.Type{Kind: spec.Object, Fields: fs}}}
		d.Types = append(d.Types, u)
		return u
	}
	withVal := func(a *spec.Attr, v *spec.Validation) *spec.Attr { a.Val = v; return a }
	withDef := func(a *spec.Attr, v any) *spec.Attr { a.Default, a.HasDef = v, true; return a }
	flavours := []*spec.UserType{
		ut("MxReqOnly", req(prim("col", spec.Int)), req(prim("text", spec.String)), prim("opt", spec.Boolean)),
		ut("MxValidated", req(withVal(prim("n", spec.Int), &spec.Validation{Min: fp(1), Max: fp(9)})),
			withVal(prim("s", spec.String), &spec.Validation{Pattern: designPatterns[0]}), withVal(prim("e", spec.String), &spec.Validation{Enum: []any{"red", "green"}})),
		ut("MxDefaulted", withDef(prim("d", spec.Int), float64(5)), withDef(prim("t", spec.String), "x"), req(prim("r", spec.Float64))),
		// a type whose ONLY constraints sit on the keys of a map it holds
		ut("MxKeyOnly", prim("note", spec.String), &spec.Attr{Name: "tags", Type: &spec.Type{Kind: spec.Map, Elem: &spec.Attr{Type: &spec.Type{Kind: spec.Int}},
			Key: &spec.Attr{Type: &spec.Type{Kind: spec.String}, Val: &spec.Validation{Pattern: designPatterns[1], MaxLength: ip(12)}}}}),
	}
	svc := &spec.Service{Name: "matrix"}
	for i, u := range flavours {
		ref := func() *spec.Attr { return &spec.Attr{Type: &spec.Type{Kind: spec.User, Name: u.Name}} }
		arr := func(e *spec.Attr) *spec.Attr { return &spec.Attr{Type: &spec.Type{Kind: spec.Array, Elem: e}} }
		mp := func(e *spec.Attr) *spec.Attr {
			return &spec.Attr{Type: &spec.Type{Kind: spec.Map, Key: &spec.Attr{Type: &spec.Type{Kind: spec.String}}, Elem: e}}
		}
		fields := func() []*spec.Attr {
			fs := []*spec.Attr{ref(), arr(ref()), mp(ref()), arr(arr(ref())), mp(arr(ref())), arr(mp(ref())), mp(mp(ref()))}
			for k, n := range []string{"t", "a", "m", "aa", "ma", "am", "mm"} {
				fs[k].Name = n
			}
			return fs
		}
		m := &spec.Method{Name: []string{"req_only", "validated", "defaulted", "key_only"}[i], Params: map[string]string{}, Headers: map[string]string{}, Cookies: map[string]string{},
			Payload: &spec.Attr{Type: &spec.Type{Kind: spec.Object, Fields: fields()}}, Result: &spec.Attr{Type: &spec.Type{Kind: spec.Object, Fields: fields()}},
			Routes: []*spec.Route{{Verb: "POST", Path: "/matrix/" + []string{"req_only", "validated", "defaulted", "key_only"}[i]}}, Responses: []*spec.Response{{Status: 200, Headers: map[string]string{}, Cookies: map[string]string{}}}}
		svc.Methods = append(svc.Methods, m)
	}
	d.Services = []*spec.Service{svc}
	d.Features = []string{"matrix:nesting"}
	return d
}
