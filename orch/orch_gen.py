"""GEN engine orchestration: seeded design specs -> goa (through its DSL) -> generated client/server
packages -> glue -> one batch binary -> seeded scenario runs (DESIGN.md section 4)."""
import json, os, re, shutil, subprocess, time
from concurrent.futures import ThreadPoolExecutor
import orch
from orch import sh, log, Trouble, GOENV, SIM, NCPU


def build_tools(work):
    tools = {}
    for name, pkg in (("dslinterp", "./cmd/dslinterp"), ("designgen", "./cmd/designgen"), ("harnessgen", "./cmd/harnessgen")):
        tools[name] = work.build(pkg, name, race=False)
    return tools


def prepare_batch(work, tools, seed, n_designs, race, focus=""):
    """Returns (binary, specdir, stats)."""
    t0 = time.time()
    stats = {"designs_generated": n_designs, "rejected_by_goa": 0, "generator_failed": 0, "glue_failed": 0, "uncompilable": 0, "linked": 0, "rejected_reasons": []}
    specdir = work.path("specs")
    sh([tools["designgen"], "-seed", str(seed), "-n", str(n_designs), "-out", specdir, "-focus", focus])
    root = work.path("gen")
    os.makedirs(root, exist_ok=True)
    open(os.path.join(root, "go.mod"), "w").write(
        "module verifgen\n\ngo 1.23\n\nrequire (\n\tgoa.design/goa/v3 v3.0.0\n\tverif/sim v0.0.0\n)\n\n"
        "replace goa.design/goa/v3 => %s\n\nreplace verif/sim => %s\n" % (work.repo, SIM))
    shutil.copy(os.path.join(SIM, "go.sum"), os.path.join(root, "go.sum"))

    def one(i):
        name = "d%d" % i
        p = subprocess.run([tools["dslinterp"], "-spec", os.path.join(specdir, name + ".json"), "-out", os.path.join(root, name)],
                           cwd=root, env=GOENV, stdout=subprocess.PIPE, stderr=subprocess.PIPE)
        if p.returncode == 3:
            return name, "rejected", p.stderr.decode()[-400:]
        if p.returncode != 0:
            return name, "genfail", p.stderr.decode()[-1500:]
        p = subprocess.run([tools["harnessgen"], "-design", name, "-dir", os.path.join(root, name)], cwd=root, env=GOENV, stdout=subprocess.PIPE, stderr=subprocess.PIPE)
        if p.returncode != 0:
            return name, "gluefail", p.stderr.decode()[-600:]
        # does what goa generated type-check? (C01 territory: a failure drops the design, it is not a verdict here)
        for attempt in range(3):
            p = subprocess.run(["go", "build", "./" + name + "/gen/..."], cwd=root, env=GOENV, stdout=subprocess.PIPE, stderr=subprocess.STDOUT)
            out = p.stdout.decode("utf-8", "replace")
            if p.returncode == 0:
                return name, "ok", ""
            if re.search(r"\.go:\d+:\d+: ", out) and "no such file or directory" not in out:
                return name, "uncompilable", out[-1200:]  # a compiler diagnostic: what goa generated does not type-check
            time.sleep(1 + attempt)  # anything else (a killed compiler, a cache hiccup under load) is not about the design
        return name, "buildtrouble", out[-1200:]

    with ThreadPoolExecutor(max_workers=NCPU) as ex:
        results = list(ex.map(one, range(n_designs)))
    good = []
    byprod = os.path.join(orch.VERIF, "evidence", "c01-byproducts")
    for name, st, msg in results:
        if st == "ok":
            good.append(name)
        elif st == "rejected":
            stats["rejected_by_goa"] += 1
            if len(stats["rejected_reasons"]) < 5:
                stats["rejected_reasons"].append(msg.strip()[-200:])
            shutil.rmtree(os.path.join(root, name), ignore_errors=True)
        elif st == "uncompilable":
            stats["uncompilable"] += 1
            first = [l for l in msg.splitlines() if ".go:" in l][:2]
            log("  design %s: generated code does not compile (C01 territory, dropped): %s" % (name, first))
            stats.setdefault("uncompilable_examples", [])
            if len(stats["uncompilable_examples"]) < 6:
                stats["uncompilable_examples"].append(" | ".join(x.split("/gen/")[-1] for x in first))
            if not os.environ.get("VERIF_EVIDENCE_DIR"):
                os.makedirs(byprod, exist_ok=True)
                shutil.copy(os.path.join(specdir, name + ".json"), os.path.join(byprod, "uncompilable-seed%d-%s.json" % (seed, name)))
            shutil.rmtree(os.path.join(root, name), ignore_errors=True)
        elif st == "buildtrouble":
            raise Trouble("go build of generated design %s failed three times without a compiler diagnostic:\n%s" % (name, msg))
        else:
            stats["generator_failed" if st == "genfail" else "glue_failed"] += 1
            log("  design %s dropped (%s): %s" % (name, st, msg[-300:]))
            if st == "genfail" and not os.environ.get("VERIF_EVIDENCE_DIR"):
                os.makedirs(byprod, exist_ok=True)
                shutil.copy(os.path.join(specdir, name + ".json"), os.path.join(byprod, "genfail-seed%d-%s.json" % (seed, name)))
            shutil.rmtree(os.path.join(root, name), ignore_errors=True)
    log("  [%5.1fs] generated %d designs: %d ok, %d rejected by goa, %d generator failures" % (time.time() - t0, n_designs, len(good), stats["rejected_by_goa"], stats["generator_failed"]))
    if not good:
        raise Trouble("no design survived generation: " + "; ".join(stats["rejected_reasons"]))
    # seams in the generated code too
    rw = orch.ensure_tool("simrewrite", "./cmd/simrewrite")
    sh([rw, "-dir", root, "-skip", "", "-report", work.path("rewrite-gen.json")], cwd=root)
    stats["rewriter_generated_code"] = json.load(open(work.path("rewrite-gen.json")))["sites"]
    binary = work.path("batch")
    for attempt in range(4):
        main = "package main\n\nimport (\n\t\"verif/sim/engine\"\n\t_ \"verif/sim/genlib\"\n" + "".join("\t_ \"verifgen/%s/glue\"\n" % g for g in good) + ")\n\nfunc main() { engine.Main() }\n"
        os.makedirs(os.path.join(root, "main"), exist_ok=True)
        open(os.path.join(root, "main", "main.go"), "w").write(main)
        cmd = ["go", "build", "-overlay", work.overlay()]
        if race:
            cmd += ["-race", "-gcflags=all=-l"]
        cmd += ["-o", binary, "./main"]
        t1 = time.time()
        p = subprocess.run(cmd, cwd=root, env=GOENV, stdout=subprocess.PIPE, stderr=subprocess.STDOUT)
        out = p.stdout.decode("utf-8", "replace")
        log("  [%5.1fs] go build batch (%d designs)%s" % (time.time() - t1, len(good), "" if p.returncode == 0 else " FAILED"))
        if p.returncode == 0:
            break
        bad = set(re.findall(r"\b(d\d+)/(?:gen|glue)/", out))
        if "no such file or directory" in out:
            bad = set()  # the build cache or the scratch directory lost a file: nothing a design did
        if not bad:
            if attempt == 0:
                log("  batch build failed outside generated code, retrying once:\n" + out[-1500:])
                time.sleep(2)
                continue
            raise Trouble("batch build failed outside generated code:\n" + out[-3000:])
        for b in bad:
            stats["uncompilable"] += 1
            log("  design %s does not compile (C01 territory, not a verdict here): %s" % (b, [l for l in out.splitlines() if b + "/" in l][:2]))
            if not os.environ.get("VERIF_EVIDENCE_DIR"):
                os.makedirs(byprod, exist_ok=True)
                shutil.copy(os.path.join(specdir, b + ".json"), os.path.join(byprod, "uncompilable-seed%d-%s.json" % (seed, b)))
        good = [g for g in good if g not in bad]
        if not good:
            raise Trouble("every design failed to compile:\n" + out[-3000:])
    else:
        raise Trouble("batch build did not converge")
    stats["linked"] = len(good)
    feats = {}
    for g in good:
        for f in json.load(open(os.path.join(specdir, g + ".json"))).get("features", []):
            feats[f] = feats.get(f, 0) + 1
    stats["design_features"] = dict(sorted(feats.items()))
    return binary, specdir, stats


COMPONENTS_GEN = {
    "real": ["goa DSL, eval, expr and code generators (run through the public DSL by dslinterp)", "the generated client, server, types, validators, views for every seeded design",
             "goa runtime packages http, pkg", "net/http request/response framing and parsing", "chi router", "encoding/json"],
    "stub": ["service implementation (recording stub returning scripted results/errors)", "security callbacks (recording)", "network (SimNet)"],
}


def check(prop, tier, seed):
    cfg = orch.PROPS[prop]
    t0 = time.time()
    work = orch.Work()
    work.prepare()
    tools = build_tools(work)
    n_designs = cfg["quick_designs"] if tier == "quick" else cfg["thorough_designs"]
    if os.environ.get("VERIF_DESIGNS"):
        n_designs = int(os.environ["VERIF_DESIGNS"])
    total = cfg["quick_runs"] if tier == "quick" else cfg["thorough_runs"]
    if os.environ.get("VERIF_RUNS"):
        total = int(os.environ["VERIF_RUNS"])
    budget = cfg["quick_budget"] if tier == "quick" else cfg["thorough_budget"]
    budget = int(os.environ.get("VERIF_BUDGET", budget))  # seconds; for trying a tier out under a shorter wall-clock budget
    outcomes, all_stats = orch.RunSet(), []
    batches = 1 if tier == "quick" else cfg.get("thorough_batches", 6)
    n_new = n_known = 0
    details = []
    for b in range(batches):
        bseed = seed * 100 + b
        binary, specdir, stats = prepare_batch(work if b == 0 else work, tools, bseed, n_designs, cfg["race"], cfg.get("focus", ""))
        all_stats.append(stats)
        env_extra = {"VERIF_SPEC_DIR": specdir, "VERIF_GEN_DIR": work.path("gen")}
        outs = orch.run_workers(work, binary, prop, tier, bseed * 1000003, total // batches, budget / batches, cfg.get("args"), env_extra=env_extra)
        nn, nk, det = orch.triage(work, binary, prop, tier, outs, cfg.get("args"), env_extra=env_extra)
        # replay files of this engine need the design batch: store the specs they refer to
        for dd in det:
            if dd.get("replay"):
                rf = json.load(open(dd["replay"]))
                rf["batch_seed"], rf["n_designs"] = bseed, n_designs
                json.dump(rf, open(dd["replay"], "w"), indent=1)
        n_new += nn
        n_known += nk
        details += det
        outcomes += outs
        if b + 1 < batches:
            shutil.rmtree(work.path("gen"), ignore_errors=True)
            shutil.rmtree(specdir, ignore_errors=True)
    feats, distinct, sched, steps, sim_s, samples = orch.summarise(outcomes)
    wall = time.time() - t0
    agg = {}
    for s in all_stats:
        for k, v in s.items():
            if isinstance(v, int):
                agg[k] = agg.get(k, 0) + v
    agg["design_features"] = all_stats[0].get("design_features")
    agg["rejected_reasons"] = all_stats[0].get("rejected_reasons")
    cov = {
        "evaluations": feats.pop("_evaluations", 0) or len(outcomes),
        "runs": len(outcomes),
        "distinct_nontrivial": len(distinct),
        "rule": cfg["rule"],
        "samples": samples,
        "exhaustive": False,
        "runs_per_hour": orch.seeds_per_hour(len(outcomes), wall),
        "programs": agg.get("linked", 0),
        "designs": agg,
        "probes_and_fault_counts": dict(sorted(feats.items())),
        "findings": details,
        "rewriter": work.rewrite_report,
        "components": COMPONENTS_GEN,
        "tree_hash": work.tree_hash,
    }
    orch.write_evidence(prop, tier, seed, cfg["level"], cov, cfg["assumptions"], wall, n_new)
    log("%s %s: %d runs over %d designs, %d distinct non-trivial, %d new violations, %d known findings, %.1fs" % (prop, tier, len(outcomes), agg.get("linked", 0), len(distinct), n_new, n_known, wall))
    return 1 if n_new else 0


def replay(rf, path):
    prop = rf["property"]
    cfg = orch.PROPS[prop]
    work = orch.Work()
    work.prepare()
    tools = build_tools(work)
    binary, specdir, stats = prepare_batch(work, tools, rf["batch_seed"], rf["n_designs"], cfg["race"], cfg.get("focus", ""))
    envx = {"VERIF_SPEC_DIR": specdir, "VERIF_GEN_DIR": work.path("gen")}
    if rf.get("history_seeds"):
        o = orch.run_seeds(work, binary, prop, rf.get("tier", "quick"), rf["history_seeds"], "replay", rf.get("args"), env_extra=envx)
    else:
        o = orch.run_tape(work, binary, prop, rf.get("tier", "quick"), {"seed": rf["seed"], "tape": rf["tape"]}, "replay", rf.get("args"), env_extra=envx)
    if o is None:
        raise Trouble("replay run failed")
    print(json.dumps({k: o.get(k) for k in ("digest", "diverged", "violations")}, indent=1)[:6000])
    if orch.has(o, rf["rule"], rf["signature"]):
        print("VIOLATION property=%s replay=%s" % (prop, path))
        return 1
    print("not reproduced on this tree")
    return 0
