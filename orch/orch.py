"""Orchestrator: scratch copy -> rewrite -> build -> seeded workers -> triage ->
minimise -> replay files -> evidence. See DESIGN.md sections 5 and 7."""
import atexit, collections, hashlib, json, os, shutil, signal, subprocess, sys, tempfile, time
from concurrent.futures import ThreadPoolExecutor

VERIF = os.path.dirname(os.path.dirname(os.path.abspath(__file__)))
REPO = os.environ.get("VERIF_REPO", "/repo")
SIM = os.path.join(VERIF, "sim")
BIN = os.path.join(VERIF, "bin")
NCPU = int(os.environ.get("VERIF_JOBS", str(os.cpu_count() or 4)))
GOENV = dict(os.environ, GOFLAGS="-mod=mod", GOPROXY="off", GOSUMDB="off", GOTOOLCHAIN="local", CGO_ENABLED="1")
FS_PKGS = "goa.design/goa/v3/codegen,goa.design/goa/v3/codegen/generator,goa.design/goa/v3/cmd/goa"


class Trouble(Exception):
    """Harness or build trouble: exit 2, never a verdict."""


def log(*a):
    print(*a, file=sys.stderr, flush=True)


def sh(cmd, cwd=None, env=None, timeout=None, check=True, quiet=False):
    t0 = time.time()
    p = subprocess.run(cmd, cwd=cwd, env=env or GOENV, stdout=subprocess.PIPE, stderr=subprocess.STDOUT, timeout=timeout)
    out = p.stdout.decode("utf-8", "replace")
    if check and p.returncode != 0:
        raise Trouble("command failed (%d): %s\n%s" % (p.returncode, " ".join(cmd), out[-6000:]))
    if not quiet:
        log("  [%5.1fs] %s" % (time.time() - t0, " ".join(cmd)[:150]))
    return p.returncode, out


# ---------------------------------------------------------------------------
# scratch tree
# ---------------------------------------------------------------------------

def private_gocache():
    """Every check invocation compiles hundreds of throw-away packages (generated designs, a rewritten copy of goa).
    Left in the user's Go build cache they pile up by about half a gigabyte per invocation (135 GB in a day of this
    work). Each invocation therefore builds into a private cache: a hard-link copy of the main one (made in about a
    second, so everything setup.sh compiled is a hit), removed when the invocation exits. VERIF_WARM=1 (setup.sh)
    builds into the main cache itself."""
    if os.environ.get("VERIF_WARM"):
        return None
    try:
        main = subprocess.run(["go", "env", "GOCACHE"], env=GOENV, stdout=subprocess.PIPE, stderr=subprocess.DEVNULL, timeout=60).stdout.decode().strip()
    except Exception:
        return None
    if not main or main == "off":
        return None
    os.makedirs(main, exist_ok=True)
    parent = os.path.dirname(main.rstrip("/"))
    for d in os.listdir(parent):  # left behind by invocations that were killed: their process is gone
        q = os.path.join(parent, d)
        try:
            if not d.startswith("verif-gocache-"):
                continue
            pid = int(d.split("-")[2])
            if os.path.exists("/proc/%d" % pid):
                continue  # (another check running at the same time: its cache is in use)
            if time.time() - os.path.getmtime(q) > 600:
                shutil.rmtree(q, ignore_errors=True)
        except (OSError, ValueError, IndexError):
            pass
    priv = tempfile.mkdtemp(prefix="verif-gocache-%d-" % os.getpid(), dir=parent)
    if subprocess.run(["cp", "-al", main + "/.", priv + "/"], stdout=subprocess.DEVNULL, stderr=subprocess.DEVNULL).returncode != 0:
        shutil.rmtree(priv, ignore_errors=True)
        return None
    os.utime(priv, None)  # cp -a gave it the main cache's (old) modification time
    return priv


class Work:
    def __init__(self):
        self.gocache = private_gocache()
        if self.gocache:
            GOENV["GOCACHE"] = self.gocache
        base = "/dev/shm" if os.path.isdir("/dev/shm") and os.access("/dev/shm", os.W_OK) else tempfile.gettempdir()
        root = os.path.join(base, "verif-work")
        os.makedirs(root, exist_ok=True)
        self.dir = tempfile.mkdtemp(prefix="w%d-" % os.getpid(), dir=root)
        atexit.register(self.cleanup)
        for s in (signal.SIGTERM, signal.SIGINT):
            signal.signal(s, lambda *_: sys.exit(2))
        self.repo = os.path.join(self.dir, "repo")
        self.rewrite_report = {}
        self.tree_hash = ""

    def cleanup(self):
        if self.gocache:
            shutil.rmtree(self.gocache, ignore_errors=True)
        if os.environ.get("VERIF_KEEP"):
            log("keeping", self.dir)
            return
        shutil.rmtree(self.dir, ignore_errors=True)

    def path(self, *a):
        return os.path.join(self.dir, *a)

    def prepare(self, rewrite=True):
        """Copy /repo's working tree, add the kernel package, insert the seams."""
        sh(["rsync", "-a", "--exclude", ".git", REPO + "/", self.repo + "/"], quiet=True)
        h = hashlib.sha256()
        for d, dirs, files in os.walk(self.repo):
            dirs.sort()
            for f in sorted(files):
                if f.endswith((".go", ".tpl", ".mod")):
                    p = os.path.join(d, f)
                    h.update(p[len(self.repo):].encode())
                    with open(p, "rb") as fh:
                        h.update(fh.read())
        self.tree_hash = h.hexdigest()[:16]
        ks = os.path.join(self.repo, "verifsim")
        os.makedirs(ks, exist_ok=True)
        for f in os.listdir(os.path.join(SIM, "verifsim")):
            if f.endswith(".go"):
                shutil.copy(os.path.join(SIM, "verifsim", f), ks)
        gm = os.path.join(self.repo, "go.mod")
        lines = open(gm).read().split("\n")
        out = []
        for l in lines:
            if l.startswith("toolchain "):
                continue
            if l.startswith("go 1."):
                l = "go 1.23"
            out.append(l)
        open(gm, "w").write("\n".join(out))
        if rewrite:
            rw = ensure_tool("simrewrite", "./cmd/simrewrite")
            rep = self.path("rewrite.json")
            sh([rw, "-dir", self.repo, "-fs", FS_PKGS, "-report", rep], cwd=self.repo)
            self.rewrite_report = json.load(open(rep))
        # module file for the engines: same requirements, goa replaced by the scratch copy
        mod = open(os.path.join(SIM, "go.mod")).read().replace("=> /repo", "=> " + self.repo)
        open(self.path("sim.mod"), "w").write(mod)
        shutil.copy(os.path.join(SIM, "go.sum"), self.path("sim.sum"))

    def overlay(self):
        """sync.Pool replaced by a deterministic LIFO without race annotations (DESIGN 3.3)."""
        ov = self.path("overlay.json")
        if not os.path.exists(ov):
            rc, goroot = sh(["go", "env", "GOROOT"], quiet=True)
            dst = self.path("overlay-pool.go")
            shutil.copy(os.path.join(SIM, "overlay", "pool.go.txt"), dst)
            json.dump({"Replace": {os.path.join(goroot.strip(), "src", "sync", "pool.go"): dst}}, open(ov, "w"))
        return ov

    def build(self, pkg, name, race=True):
        out = self.path(name + ("-race" if race else ""))
        cmd = ["go", "build", "-overlay", self.overlay()]
        if race:
            # no inlining: race reports name the function that really contains the access
            cmd += ["-race", "-gcflags=all=-l"]
        cmd += ["-modfile=" + self.path("sim.mod"), "-o", out, pkg]
        sh(cmd, cwd=SIM, timeout=1800)
        return out


def ensure_tool(name, pkg):
    p = os.path.join(BIN, name)
    src_dir = os.path.join(SIM, pkg.lstrip("./"))
    newest = max(os.path.getmtime(os.path.join(src_dir, f)) for f in os.listdir(src_dir))
    if not os.path.exists(p) or os.path.getmtime(p) < newest:
        os.makedirs(BIN, exist_ok=True)
        sh(["go", "build", "-o", p, pkg], cwd=SIM, timeout=900)
    return p


# ---------------------------------------------------------------------------
# workers
# ---------------------------------------------------------------------------

class RunSet:
    """What a batch of runs produced, held in bounded memory: aggregates over every run, and in full only the
    runs that reported a violation (at most KEEP per (rule, signature): the rest are counted)."""
    KEEP = 40

    def __init__(self, keep_all=False):
        self.n = 0
        self.feats = collections.Counter()
        self.distinct = set()
        self.keyed = set()
        self.sched = set()
        self.steps = 0
        self.sim_s = 0.0
        self.samples = []
        self.viol = []
        self.viol_count = collections.Counter()
        self.all = [] if keep_all else None

    def add(self, o):
        self.n += 1
        for k, v in (o.get("features") or {}).items():
            self.feats[k] += v
        if o.get("nontrivial") and o.get("distinct"):
            self.distinct.add(o["distinct"])
        for k in ((o.get("extra") or {}).get("distinct_keys") or "").split("\n"):
            if k:
                self.keyed.add(k)
        if o.get("sched"):
            self.sched.add(o["sched"])
        self.steps += o.get("steps", 0)
        self.sim_s += o.get("sim_s", 0.0)
        if o.get("sample") is not None and len(self.samples) < 3:
            self.samples.append({"seed": o["seed"], "scenario": o["sample"]})
        if self.all is not None:
            self.all.append(o)
        vs = o.get("violations") or []
        if vs:
            fresh = False
            for v in vs:
                key = (v["rule"], v["signature"])
                self.viol_count[key] += 1
                if self.viol_count[key] <= self.KEEP:
                    fresh = True
            if fresh:
                self.viol.append(o)

    def merge(self, other):
        self.n += other.n
        self.feats.update(other.feats)
        self.distinct |= other.distinct
        self.keyed |= other.keyed
        self.sched |= other.sched
        self.steps += other.steps
        self.sim_s += other.sim_s
        self.samples = (self.samples + other.samples)[:3]
        self.viol += other.viol
        self.viol_count.update(other.viol_count)
        if self.all is not None and other.all is not None:
            self.all += other.all
        return self

    __iadd__ = merge

    def __add__(self, other):
        r = RunSet(self.all is not None)
        r.merge(self)
        return r.merge(other)

    def __len__(self):
        return self.n

    def __iter__(self):  # the runs kept in full: those with violations
        return iter(self.viol)


def run_workers(work, binary, prop, tier, seed0, total_runs, budget_s, extra_args=None, jobs=None, env_extra=None, keep_all=False):
    """Runs total_runs seeds across worker processes; returns a RunSet. A worker process is recycled every CHUNK
    runs: the race detector's bookkeeping grows with every goroutine a process has ever started."""
    jobs = jobs or NCPU
    jobs = max(1, min(jobs, total_runs))
    per = (total_runs + jobs - 1) // jobs
    chunk = int(os.environ.get("VERIF_CHUNK", "0")) or (1500 if binary.endswith("-race") else 20000)

    def one(i):
        hangs = [0]
        res = RunSet(keep_all)
        seed = seed0 + i
        left = per
        seg = 0
        t_end = time.time() + budget_s
        while left > 0 and (seg == 0 or time.time() < t_end):
            out = work.path("out-%s-%d-%d.jsonl" % (prop, i, seg))
            seg += 1
            env = dict(GOENV, GORACE="log_path=%s halt_on_error=0 exitcode=0" % work.path("race-%s-%d" % (prop, i)))
            if env_extra:
                env.update(env_extra)
            remaining = max(5, int(t_end - time.time()))
            n = min(left, chunk)
            cmd = [binary, "-prop", prop, "-seed", str(seed), "-stride", str(jobs), "-runs", str(n), "-tier", tier,
                   "-out", out, "-budget", "%ds" % remaining]
            if extra_args:
                cmd += ["-args", extra_args]
            try:
                p = subprocess.run(cmd, env=env, stdout=subprocess.PIPE, stderr=subprocess.PIPE, timeout=remaining + 300)
            except subprocess.TimeoutExpired:
                raise Trouble("worker %d timed out" % i)
            got = 0
            if os.path.exists(out):
                with open(out) as fh:
                    for l in fh:
                        l = l.strip()
                        if l:
                            try:
                                res.add(json.loads(l))
                                got += 1
                            except ValueError:
                                pass
                os.unlink(out)
            if p.returncode == 3:  # tainted: restart after the last seed
                if not got:
                    raise Trouble("worker tainted without output: " + p.stderr.decode()[-2000:])
            elif p.returncode == 2 and b"WATCHDOG" in p.stderr and hangs[0] < 2:
                # a worker stopped making progress: keep the whole dump, and run the same seed again in a fresh
                # process (one tape = one execution, so a hang that belongs to the seed comes back and is then fatal)
                hangs[0] += 1
                dump = os.path.join(os.environ.get("VERIF_EVIDENCE_DIR", os.path.join(VERIF, "evidence")), "trouble-%s-watchdog.log" % prop)
                try:
                    with open(dump, "ab") as fh:
                        fh.write(("==== worker %d seed %d (after %d completed runs)\n" % (i, seed + got * jobs, got)).encode())
                        fh.write(p.stderr[-400000:])
                except OSError:
                    pass
                log("worker %d: watchdog at seed %d, retrying it in a fresh process (dump in %s)" % (i, seed + got * jobs, dump))
                res.feats["harness_watchdog_retries"] += 1
            elif p.returncode != 0:
                raise Trouble("worker exit %d: %s" % (p.returncode, p.stderr.decode("utf-8", "replace")[-4000:]))
            elif got < n:
                break  # the worker's own budget ran out
            seed += got * jobs
            left -= got
        return res

    outs = RunSet(keep_all)
    with ThreadPoolExecutor(max_workers=jobs) as ex:
        for r in ex.map(one, range(jobs)):
            outs.merge(r)
    outs.layout = {"seed0": seed0, "jobs": jobs, "chunk": chunk}
    return outs


def run_seeds(work, binary, prop, tier, seeds, tag, extra_args=None, env_extra=None, timeout=600):
    """Runs the listed seeds, in order, in ONE fresh process; returns the outcome of the last one."""
    out = work.path("seedsout-%s.jsonl" % tag)
    env = dict(GOENV, GORACE="log_path=%s halt_on_error=0 exitcode=0" % work.path("race-" + tag))
    if env_extra:
        env.update(env_extra)
    cmd = [binary, "-prop", prop, "-tier", tier, "-seeds", ",".join(str(x) for x in seeds), "-out", out]
    if extra_args:
        cmd += ["-args", extra_args]
    try:
        p = subprocess.run(cmd, env=env, stdout=subprocess.PIPE, stderr=subprocess.PIPE, timeout=timeout)
    except subprocess.TimeoutExpired:
        return None
    try:
        return json.loads(open(out).readline())
    except Exception:
        return None
    finally:
        try:
            os.unlink(out)
        except OSError:
            pass


def history_of(layout, seed):
    """The seeds the worker process that ran `seed` had run before it, in order, ending with `seed`."""
    if not layout:
        return None
    j, s0, chunk = layout["jobs"], layout["seed0"], layout["chunk"]
    if seed < s0:
        return None
    idx = (seed - s0) // j
    first = s0 + (seed - s0) % j
    start = (idx // chunk) * chunk
    return [first + j * k for k in range(start, idx + 1)]


def replay_with_history(work, binary, prop, tier, layout, o, rule, sig, extra_args=None, env_extra=None):
    """A violation that does not come back from its own tape in a fresh process may depend on what its process ran
    before (process-wide state is part of the system). Re-runs the process history; if the violation comes back, shrinks
    the history (shortest suffix, then dropping blocks) and returns (seeds, outcome); else None."""
    hist = history_of(layout, o.get("seed", -1))
    if not hist or len(hist) < 2:
        return None
    tag = "hist%d" % os.getpid()
    full = run_seeds(work, binary, prop, tier, hist, tag, extra_args, env_extra)
    if not has(full, rule, sig):
        return None
    best, best_o = hist, full
    # shortest suffix
    m = 2
    while m < len(hist):
        c = hist[-m:]
        r = run_seeds(work, binary, prop, tier, c, tag, extra_args, env_extra)
        if has(r, rule, sig):
            best, best_o = c, r
            break
        m *= 2
    # drop blocks of the prefix (the last seed always stays), bounded
    tries = 0
    size = max(1, (len(best) - 1) // 2)
    while size >= 1 and tries < 40 and len(best) > 2:
        pos, progress = 0, False
        while pos < len(best) - 1 and tries < 40:
            c = best[:pos] + best[min(pos + size, len(best) - 1):]
            tries += 1
            r = run_seeds(work, binary, prop, tier, c, tag, extra_args, env_extra) if len(c) < len(best) else None
            if has(r, rule, sig):
                best, best_o, progress = c, r, True
            else:
                pos += size
        if not progress or size == 1:
            size //= 2
    return best, best_o


def run_tape(work, binary, prop, tier, tape_obj, tag, extra_args=None, env_extra=None, timeout=120):
    """One run from a tape file in a fresh process. Returns the outcome."""
    tf = work.path("tape-%s.json" % tag)
    json.dump(tape_obj, open(tf, "w"))
    out = work.path("tapeout-%s.jsonl" % tag)
    env = dict(GOENV, GORACE="log_path=%s halt_on_error=0 exitcode=0" % work.path("race-" + tag))
    if env_extra:
        env.update(env_extra)
    cmd = [binary, "-prop", prop, "-tier", tier, "-tape", tf, "-out", out]
    if extra_args:
        cmd += ["-args", extra_args]
    try:
        p = subprocess.run(cmd, env=env, stdout=subprocess.PIPE, stderr=subprocess.PIPE, timeout=timeout)
    except subprocess.TimeoutExpired:
        return None
    if p.returncode not in (0, 3):
        return None
    try:
        return json.loads(open(out).readline())
    except Exception:
        return None
    finally:
        for f in (tf, out):
            try:
                os.unlink(f)
            except OSError:
                pass


def has(o, rule, sig):
    if rule == "data_race":
        # the detector reports each racing stack pair once per process, so which pair
        # surfaces first depends on what the process ran before; any race reproduces
        return o is not None and any(v["rule"] == rule for v in o.get("violations", []))
    return o is not None and any(v["rule"] == rule and v["signature"] == sig for v in o.get("violations", []))


def minimise(work, binary, prop, tier, outcome, rule, sig, extra_args=None, env_extra=None, max_runs=400, max_s=30):
    """Shrinks the tape's value list while the same (rule, signature) fails."""
    vals = [d["v"] for d in outcome["tape"]]
    t0 = time.time()
    runs = [0]
    ctr = [0]

    def test_many(cands):
        """Returns index of first failing candidate (in order) or -1."""
        if not cands or runs[0] > max_runs or time.time() - t0 > max_s:
            return -1, None
        runs[0] += len(cands)

        def f(c):
            ctr[0] += 1
            return run_tape(work, binary, prop, tier, {"seed": outcome["seed"], "values": c}, "m%d-%d" % (os.getpid(), ctr[0] * 1000 + (hash(tuple(c)) % 997)), extra_args, env_extra, timeout=20)
        with ThreadPoolExecutor(max_workers=NCPU) as ex:
            res = list(ex.map(f, cands))
        for i, o in enumerate(res):
            if has(o, rule, sig):
                return i, o
        return -1, None

    best_o = None
    # 1. shortest prefix (rest reads as zero)
    cands, lens = [], []
    n = len(vals)
    L = n
    for frac in (0, 1, 2, 4, 8, 16, 32, 64):
        k = 0 if frac == 0 else n * frac // 128
        if k < n:
            cands.append(vals[:k]); lens.append(k)
    i, o = test_many(cands)
    if i >= 0:
        vals, best_o = cands[i], o
    # strip trailing zeros
    while vals and vals[-1] == 0:
        vals.pop()
    # 2. delete / zero blocks
    size = max(1, len(vals) // 2)
    while size >= 1 and runs[0] <= max_runs and time.time() - t0 <= max_s:
        progress = False
        pos = 0
        while pos < len(vals):
            cands = []
            meta = []
            p = pos
            while p < len(vals) and len(cands) < NCPU:
                cands.append(vals[:p] + vals[p + size:]); meta.append(("del", p))
                if any(vals[p:p + size]):
                    cands.append(vals[:p] + [0] * len(vals[p:p + size]) + vals[p + size:]); meta.append(("zero", p))
                p += size
            i, o = test_many(cands)
            if i >= 0:
                vals, best_o = cands[i], o
                progress = True
                pos = meta[i][1] if meta[i][0] == "del" else meta[i][1] + size
            else:
                pos = p
            if runs[0] > max_runs or time.time() - t0 > max_s:
                break
        if not progress or size == 1:
            if size == 1 and progress:
                continue
            size //= 2
    # 3. reduce single values
    idx = [k for k, v in enumerate(vals) if v > 1]
    for s in range(0, len(idx), NCPU):
        cands = []
        for k in idx[s:s + NCPU]:
            c = list(vals); c[k] = vals[k] // 2 if vals[k] > 3 else 1
            cands.append(c)
        i, o = test_many(cands)
        if i >= 0:
            vals, best_o = cands[i], o
    while vals and vals[-1] == 0:
        vals.pop()
    if best_o is None:
        best_o = run_tape(work, binary, prop, tier, {"seed": outcome["seed"], "values": vals}, "mfinal%d" % os.getpid(), extra_args, env_extra)
        if not has(best_o, rule, sig):
            return outcome, runs[0]
    return best_o, runs[0]


# ---------------------------------------------------------------------------
# known findings, evidence
# ---------------------------------------------------------------------------

def load_known():
    p = os.path.join(VERIF, "known_findings.jsonl")
    ks = []
    if os.path.exists(p):
        for l in open(p):
            l = l.strip()
            if l and not l.startswith("#"):
                ks.append(json.loads(l))
    return ks


def known_match(ks, prop, rule, sig):
    for k in ks:
        if k.get("status") == "known" and k["property"] == prop and k["rule"] == rule and k["signature"] == sig:
            return k
    return None


def write_evidence(prop, tier, seed, level, coverage, assumptions, wall, nviol):
    evdir = os.environ.get("VERIF_EVIDENCE_DIR", os.path.join(VERIF, "evidence"))
    os.makedirs(evdir, exist_ok=True)
    ev = {"property_id": prop, "tier": tier, "seed": seed, "level": level, "coverage": coverage,
          "assumptions": assumptions, "wall_s": round(wall, 2), "violations": nviol}
    p = os.path.join(evdir, prop + ".json")
    tmp = p + ".tmp"
    json.dump(ev, open(tmp, "w"), indent=1, sort_keys=True)
    os.replace(tmp, p)
    return p


def triage(work, binary, prop, tier, outcomes, extra_args=None, env_extra=None, do_minimise=True):
    """Groups violations, prints KNOWN-FINDING / VIOLATION lines. Returns (n_new, n_known, details)."""
    ks = load_known()
    groups = collections.OrderedDict()
    for o in outcomes:
        for v in o.get("violations", []):
            groups.setdefault((v["rule"], v["signature"]), []).append((o, v))
    counts = getattr(outcomes, "viol_count", {})
    n_new = n_known = 0
    details = []
    flaky = []
    for (rule, sig), items in groups.items():
        k = known_match(ks, prop, rule, sig)
        if k:
            print("KNOWN-FINDING: property=%s %s [rule=%s signature=%s, %d occurrences in this run]" % (prop, k["what"], rule, sig, counts.get((rule, sig), len(items))), flush=True)
            n_known += 1
            details.append({"rule": rule, "signature": sig, "known": True, "occurrences": len(items)})
            continue
        if rule in ("harness_panic", "harness_regex"):
            raise Trouble("harness failure: %s" % items[0][1]["detail"][:3000])
        o, v = min([it for it in items if it[0].get("tape")] or items, key=lambda it: len(it[0].get("tape") or []))
        mo, mruns = o, 0
        if do_minimise and o.get("tape") and n_new < 2:
            log("minimising %s/%s from %d draws ..." % (rule, sig, len(o["tape"])))
            mo, mruns = minimise(work, binary, prop, tier, o, rule, sig, extra_args, env_extra)
        # verify in a fresh process, strictly
        rp = None
        ver = run_tape(work, binary, prop, tier, {"seed": mo["seed"], "tape": mo["tape"]}, "verify%d" % n_new, extra_args, env_extra) if mo.get("tape") else None
        reproduced = has(ver, rule, sig) and not ver.get("diverged")
        if not reproduced:
            # fall back to the unminimised run
            ver = run_tape(work, binary, prop, tier, {"seed": o["seed"], "tape": o["tape"]}, "verify-o%d" % n_new, extra_args, env_extra) if o.get("tape") else None
            if has(ver, rule, sig) and not ver.get("diverged"):
                mo, reproduced = o, True
        history = None
        if not reproduced:
            hr = replay_with_history(work, binary, prop, tier, getattr(outcomes, "layout", None), o, rule, sig, extra_args, env_extra)
            if hr:
                history, ver = hr
                mo, reproduced = dict(o, tape=ver.get("tape") or o.get("tape")), True
                log("%s/%s depends on process history: reproduced by running %d earlier seeds first" % (rule, sig, len(history) - 1))
        if not reproduced:
            # not a verdict: remembered, and fatal (exit 2) only if nothing else was confirmed
            flaky.append("violation %s/%s (seed %s) did not reproduce on replay\n%s" % (rule, sig, o.get("seed"), v["detail"][:1500]))
            log("UNREPRODUCIBLE (not reported as a violation):", flaky[-1][:300])
            continue
        mv = [x for x in ver["violations"] if x["rule"] == rule and (x["signature"] == sig or rule == "data_race")][0]
        if rule == "data_race":
            sig = mv["signature"]  # as seen by a fresh process
            k = known_match(ks, prop, rule, sig)
            if k:
                print("KNOWN-FINDING: property=%s %s [rule=%s signature=%s]" % (prop, k["what"], rule, sig), flush=True)
                n_known += 1
                details.append({"rule": rule, "signature": sig, "known": True, "occurrences": len(items)})
                continue
            if any(d.get("signature") == sig and not d.get("known") for d in details):
                continue  # same racing pair already reported
        rpdir = os.environ.get("VERIF_REPLAY_DIR", os.path.join(VERIF, "replays"))
        os.makedirs(rpdir, exist_ok=True)
        rp = os.path.join(rpdir, "%s-%s-%s.json" % (prop, mo["seed"], hashlib.sha1((rule + sig).encode()).hexdigest()[:8]))
        json.dump({"property": prop, "tier": tier, "rule": rule, "signature": sig, "detail": mv["detail"], "seed": mo["seed"],
                   "tree_hash": work.tree_hash, "digest": ver.get("digest"), "sample": ver.get("sample"), "args": extra_args,
                   "original_draws": len(o.get("tape") or []), "minimised_draws": len(mo["tape"]), "minimiser_runs": mruns,
                   "occurrences_in_run": len(items), "tape": mo["tape"], "history_seeds": history,
                   "note": ("the verdict depends on process history: the replay runs history_seeds in order in one fresh process and judges the last" if history else None)},
                  open(rp, "w"), indent=1)
        print("VIOLATION property=%s replay=%s" % (prop, rp), flush=True)
        if history:
            print("  (depends on process history: %d earlier runs in the same process are part of the replay)" % (len(history) - 1), flush=True)
        print("  rule=%s signature=%s seed=%s draws=%d->%d\n  %s" % (rule, sig, mo["seed"], len(o.get("tape") or []), len(mo["tape"]), mv["detail"][:1500].replace("\n", "\n  ")), flush=True)
        n_new += 1
        details.append({"rule": rule, "signature": sig, "known": False, "occurrences": len(items), "replay": rp})
    if flaky and n_new == 0:
        raise Trouble("flaky harness, not a verdict: " + flaky[0])
    for f in flaky:
        details.append({"unreproducible": f[:300]})
    return n_new, n_known, details


def summarise(rs):
    distinct = rs.keyed if rs.keyed else rs.distinct  # keyed: the engine named its own equivalence classes
    return collections.Counter(rs.feats), distinct, rs.sched, rs.steps, rs.sim_s, rs.samples


# ---------------------------------------------------------------------------
# property table
# ---------------------------------------------------------------------------

COMPONENTS_RT = {
    "real": ["goa runtime packages pkg, http, http/middleware, middleware, grpc/middleware (rewritten only by the mechanical seams of DESIGN 3.1)",
             "net/http request/response framing and parsing", "chi router", "encoding/json|xml|gob", "Go race detector"],
    "stub": ["network (SimNet)", "clock (SimClock)", "entropy (SimRand)", "task scheduler (gated controller)", "service handlers (recording stubs)"],
}

PROPS = {
    "C17": dict(engine="rt", pkg="./engines/rt", race=True, quick_runs=6000, thorough_runs=400000, quick_budget=150, thorough_budget=1500,
                level="exploration",
                rule="one run = one tape: 1-16 tasks under the gated scheduler calling ValidatePattern/ValidateFormat on the shared "
                     "process-wide cache (2-40 calls per task quick, up to 120 thorough; pattern pool of 1-6 grammar-generated regexes, cold or "
                     "pre-warmed; per-format constructive instances and single-point corruptions); distinct = distinct (schedule hash, tasks, "
                     "mix, pool size); non-trivial = at least one call and (more than one task, or a pre-warmed cache, or patterns in the mix)",
                assumptions=["Go's regexp package is the reference for pattern matching (the property says so)",
                             "well-formedness by construction follows the core grammar of the RFC each format names; only instances inside that core are generated",
                             "scheduling points are the rewritten sync operations and one yield before each call; data races between points are left to the race detector, "
                             "which sees only the program's own happens-before edges (gates are raw syscalls)"]),
    "C13": dict(engine="rt", pkg="./engines/rt", race=False, quick_runs=20000, thorough_runs=2000000, quick_budget=120, thorough_budget=1500,
                level="exploration",
                rule="one run = one seeded type graph (1-4 user/result types that may reference each other, depth <= 5, objects, arrays, maps, unions, 0-4 Meta keys per attribute incl. "
                     "several struct:field:* keys, validations): Hash under all 8 flag combinations and Dup evaluated under map orders sorted, reverse and 6 seeded permutations (MapOrder "
                     "seam on every range over a map in goa) must give identical answers; a history of 1-6 mutations applied to Dup's result (set type, add/append Meta, change validation, "
                     "add attribute, rename user type, add union alternative) must leave a deep snapshot and the hashes of the original unchanged, likewise DupAtt; workload-only oracle "
                     "(no simulator leverage, labelled so in DESIGN.md): the same graph declared in another attribute/alternative order hashes equal, one changed leaf hashes different; "
                     "distinct = digest of the graph's hashes",
                assumptions=["partly claimed: the hash<=>equality clause is input-only and rides along on the graphs that exist for the map-order and copy/mutate clauses",
                             "graphs are built directly from expr types (the DSL is not involved)", "a leaf that is only reachable behind a recursive reference is not required to change the hash"]),
    "C15": dict(engine="rt", pkg="./engines/rt", race=True, quick_runs=4000, thorough_runs=400000, quick_budget=120, thorough_budget=1500,
                level="exploration",
                rule="one run = 12 (quick) / 40 (thorough) encoder<->decoder exchanges over SimNet (1-byte..whole chunking, chunked/length framing, header-case noise); "
                     "response direction: Accept value from a grammar (absent, exact, parameters, q-values, lists, wildcards, +suffix, mixed case, unsupported, garbage, empty) x designed "
                     "Content-Type (absent, exact, vendor+suffix, parameters, unknown, unparsable) x optional pre-set header x value kind (struct, string, *string, []byte); request direction: "
                     "announced media type (absent, exact, parameters, unsupported, garbage) with the body encoded in that format; one run in three injects cut_response/cut_request; "
                     "distinct = distinct (direction, accept class, designed class, pre-set, value kind) tuples; every tuple is non-trivial",
                assumptions=["encoding/json, encoding/xml and encoding/gob are trusted to round-trip the generated values (only valid UTF-8 / XML characters are generated)",
                             "a pre-set Content-Type that goes out untouched is the handler's header, not one the encoder set, and is not judged",
                             "when Encode itself returns an error (e.g. a struct as text/plain) nothing is promised"]),
    "C16": dict(engine="rt", pkg="./engines/rt", race=True, quick_runs=3000, thorough_runs=300000, quick_budget=120, thorough_budget=1500,
                level="exploration",
                rule="one run = one muxer: 1-6 patterns (literals, {name}, trailing {*name}, 4 methods), a registration history interleaving Use and Handle, middlewares that call "
                     "ResolvePattern/Vars before and/or after next; 12 (quick) / 40 (thorough) requests built by substituting url.PathEscape'd values (Unicode, '/', '%', %XX look-alikes, '+', "
                     "space, reserved characters, empty catch-all) or matching no pattern (with Accept variants), sent through SimNet's wire form; reference router on the escaped path; "
                     "distinct = digest of (request, handler reached, Vars) sequence per run",
                assumptions=["when several registered patterns match a request, reaching any of them is accepted", "405 responses (path matches, method does not) are outside the property",
                             "chi refuses Use after the first Handle by panicking; that refusal is counted, not judged"]),
    "C19": dict(engine="rt", pkg="./engines/rt", race=True, quick_runs=4000, thorough_runs=400000, quick_budget=150, thorough_budget=1500,
                level="exploration",
                rule="one run = one of: (a) 1-3 call chains of depth 1-4 over 1-4 shared nodes (RequestID -> Trace -> handler -> traced client -> next node), HTTP over SimNet or gRPC "
                     "unary/stream interceptors with a metadata hop, option combinations drawn per node (trust, custom header, limit 0..64, sampling 0/100/other/adaptive, discard pattern, "
                     "custom ID functions), inbound ids drawn (absent, empty, long, multi-byte), chains interleaved by the gated scheduler, optional HTTP/gRPC parity replay of the same inputs; "
                     "(b) 10 ResponseCapture cases (implicit/explicit status, chunks, second WriteHeader) under writer_error@k; (c) fixed 0/100/other or adaptive sampler called by 1-4 tasks "
                     "over simulated time with clock steps backwards and jumps; distinct = digest of recorded ids per hop + schedule hash",
                assumptions=["'truncated to the limit' is accepted in bytes or in characters", "fresh = encoded from entropy handed out by SimRand to the same task while that request was in its middlewares, or produced by that node's custom ID function",
                             "adaptive sampling and percentages strictly between 0 and 100 are not constrained by the property and only exercised"]),
    "C20": dict(engine="rtgen", pkg="./engines/rt", race=True, quick_runs=3000, thorough_runs=300000, quick_budget=240, thorough_budget=1800,
                quick_designs=16, thorough_designs=40, quick_gen_runs=2400, thorough_gen_runs=40000,
                level="exploration",
                rule="runtime half: one run = one of (a) 2-16 (thorough: up to 64) client tasks x 1-4 (thorough 1-10) requests (ok, catch-all, invalid, declared error, plain error, "
                     "unknown route, truncated body; Accept json/xml/gob/absent) through SimNet against ONE mounted server assembled from goa's runtime helpers the way generated servers "
                     "assemble them (shared decoder/encoder/ErrorEncoder closures, muxer, optional RequestID and ResolvePattern middlewares), scheduling points at every transport read/write "
                     "and every rewritten sync operation; (b) StreamCanceler with 1-6 streams and a shutdown at a drawn point, its goroutine a task; (c) SkipResponseWriter with a scripted "
                     "WriterTo, un-gated single driver. Oracles: no race report, echo (every response is the function of its own request: ids, tokens, request id, pattern, negotiated type, "
                     "error name/message), no deadlock, all tasks finish. distinct = schedule hash; non-trivial = more than one task. Generated half: one run = 2-16 (thorough: up to 64) client tasks x 1-3 (thorough 1-8) exchanges (valid, single-constraint-invalid, declared error, plain error) "
                     "through the generated clients against ONE mounted generated server of a seeded design, race build of goa + generated code + chi; echo oracle = delivery and result equality "
                     "with the task's own values, error messages carrying the task's own marker.",
                assumptions=["the race detector only sees the program's own happens-before edges (gates are raw syscalls, no inlining so reports name the accessing function)",
                             "interleavings are explored at scheduling points only; what happens between two points is covered by the race detector, not by schedule search",
                             "sync.Pool inside chi/net/http/fmt keeps its per-P behaviour (no overlay): it can add happens-before edges and so hide, never invent, a race"]),
    "C02": dict(engine="gen", race=False, quick_designs=64, thorough_designs=64, quick_runs=16000, thorough_runs=600000, quick_budget=120, thorough_budget=1800, thorough_batches=24,
                level="exploration",
                rule="one batch = N seeded design specs (1-3 services x 1-4 methods; payload attributes of every primitive kind, arrays, maps, inline objects, named types, aliases, "
                     "required/default, every validation keyword, mapped to path/query/header/cookie/body) fed to goa through its public DSL, generated, compiled and linked into one binary; "
                     "one run = 6 (quick) / 20 (thorough) exchanges generated-client -> SimNet -> generated-server -> recording stub on a drawn design/method with a drawn valid payload "
                     "(boundary classes per location), SimNet chunking/framing/header noise always, one run in three with cut/flip/dup/drop faults; oracles: stub invoked once with "
                     "Expected(payload) (defaults filled), wire placement per location, relaxed fault oracle; distinct = (design, method, mode, fault multiset) tuples",
                assumptions=["the reference model is computed from the design spec, never from goa's expression model or templates",
                             "values a location cannot carry by HTTP's own rules are not generated there (CR/LF/NUL, surrounding blanks in headers, non cookie-octets in cookies, empty path segments)",
                             "for a defaulted attribute held in a non-pointer Go field the sender cannot express 'unset'; such attributes are always sent with a non-zero value",
                             "absent and empty collections compare equal", "designs goa rejects or that fail to compile are dropped and counted (C01/C12 territory)"]),
}
PROPS["C09"] = dict(engine="dir", race=False, quick_histories=60, thorough_histories=1500, quick_crash_points=96, quick_budget=420, thorough_budget=2400,
                    level="fault_enumeration",
                    rule="the real goa CLI and the generator it compiles and runs (both built from the rewritten copy), one process per step, over one output directory on tmpfs: "
                         "(A) determinism experiments: each of 3 (thorough 10) seeded designs generated into a fresh directory under reverse / seeded map orders, three clock origins and different "
                         "GOMAXPROCS, compared byte for byte with a clean generation under sorted map order; (B) seeded histories of 2-7 steps (gen, example, user-edit, design-edit, "
                         "crashed-gen@n with optional torn write, failed-gen@n ENOSPC/EIO, crashed-cleanup), every step with its own map order and clock; (C) crash-point enumeration "
                         "gen; crashed-gen@n; gen over the quotient of FaultFS operations (every non-write operation; first, last and three middle writes of each run of writes to one file, with "
                         "and without tearing): quick = 96 evenly spaced points of the quotient on one design, thorough = the whole quotient on up to 10 designs. Oracles after every successful "
                         "gen: file list and bytes under gen/ equal the clean generation of the current design (so no stale or half-written file survives), nothing outside gen/ changed; "
                         "after every example: every file that existed before is byte- and mtime-identical. distinct = (class, design, step shape or crash point)",
                    assumptions=["the crash model is process death (completed writes survive): goa never fsyncs, so nothing stronger is promised",
                                 "a crash inside the os.RemoveAll that the generated main performs is simulated from outside (crashed-cleanup: a random subset of gen/ deleted), a superset of what a dying RemoveAll can leave",
                                 "designs goa cannot generate at all are dropped (C01 territory)",
                                 "the Go build cache is shared by all steps; the generator binary is relinked at every step"])

for _pid, _what in (("C03", "a drawn valid RESULT returned by the stub; oracles: client returns Expected(result) (defaults filled), designed status code, response placement (header/cookie/body), relaxed fault oracle"),
                    ("C04", "values on both sides of every validation boundary (one constraint instance broken per exchange: required, enum, format, pattern, min/max incl. exclusive, lengths in runes vs bytes, at every nesting depth, in every location) and invalid RESULTS; oracles: stub invoked iff the model says the request is valid; 4xx with the documented error name for the broken rule; whatever reaches the stub satisfies the design (also under cut/flip/dup faults); the client refuses results that violate the result's constraints"),
                    ("C06", "designs with Basic/APIKey/JWT/OAuth2 schemes in 1-3 alternative requirements of 1-2 schemes at API/service/method level with NoSecurity overrides, credentials in Authorization/custom headers/query; per exchange a drawn accept/reject vector and credential strings (spaces, Bearer prefixes, colons, non-ASCII); oracles: user code runs iff the first requirement (in design order) whose callbacks all accept exists, exact callback sequence with short-circuit, each callback gets the credential the client was given (bearer prefix removed for header tokens) and the declared/required scopes, total failure returns the last callback's error, NoSecurity triggers no callback"),
                    ("C08", "methods whose result is a result type with 1-3 views (partial default view, nested result types with per-attribute view overrides, fixed views); the stub returns a full value and a view name that is defined, empty or undefined; fault: the network rewrites the goa-view header to another defined view, an undefined one or nothing; oracles: JSON keys on the wire are exactly the view's attributes (recursively), goa-view equals the rendered view, the client's value equals the projection and has nothing set outside it, an undefined view from the service never yields a success, an undefined label is refused, a relabelled response never yields attributes outside the labelled view"),
                    ("C14", "valid, boundary and single-constraint-violating requests (as in C04) and declared errors; every intact exchange is replayed into kin-openapi's openapi3filter loaded with the openapi3.json goa generated for the design; oracles: the document accepts the request iff the reference model says it satisfies the design (disagreements between server and model are C04's and not reported twice), and every success or declared-error response conforms to the documented response for its status; formats are not compared"),
                    ("C05", "the stub returns declared errors (Make<Name>), wrapped declared errors, undeclared service errors with every flag combination, plain Go errors; oracles: designed status, same name/id/message/flags at the client, documented default mapping for undeclared errors, exactly one WriteHeader, body parses under its Content-Type, no handler gives up on its response")):
    PROPS[_pid] = dict(PROPS["C02"])
    PROPS[_pid]["focus"] = {"C06": "security", "C08": "views"}.get(_pid, "")
    PROPS[_pid]["rule"] = PROPS["C02"]["rule"].split("one run =")[0] + "one run = 6 (quick) / 20 (thorough) exchanges generated-client -> SimNet -> generated-server -> scripted stub with " + _what + "; distinct = (design, method, mode, fault multiset) tuples"


def seeds_per_hour(n, wall):
    return int(n * 3600 / max(wall, 0.001))


def check_rt(prop, tier, seed):
    cfg = PROPS[prop]
    t0 = time.time()
    work = Work()
    work.prepare()
    binary = work.build(cfg["pkg"], cfg["engine"], race=cfg["race"])
    total = cfg["quick_runs"] if tier == "quick" else cfg["thorough_runs"]
    budget = cfg["quick_budget"] if tier == "quick" else cfg["thorough_budget"]
    budget = int(os.environ.get("VERIF_BUDGET", budget))  # seconds; for trying a tier out under a shorter wall-clock budget
    if os.environ.get("VERIF_RUNS"):
        total = int(os.environ["VERIF_RUNS"])
    seed0 = seed * 1000003
    t1 = time.time()
    outcomes = run_workers(work, binary, prop, tier, seed0, total, budget, cfg.get("args"))
    run_wall = time.time() - t1
    n_new, n_known, details = triage(work, binary, prop, tier, outcomes, cfg.get("args"))
    feats, distinct, sched, steps, sim_s, samples = summarise(outcomes)
    wall = time.time() - t0
    cov = {
        "evaluations": feats.pop("_evaluations", 0) or len(outcomes),
        "runs": len(outcomes),
        "distinct_nontrivial": len(distinct),
        "rule": cfg["rule"],
        "samples": samples,
        "exhaustive": False,
        "runs_per_hour": seeds_per_hour(len(outcomes), run_wall),
        "scheduling_points": steps,
        "distinct_interleavings_by_schedule_hash": len(sched),
        "simulated_seconds": round(sim_s, 3),
        "probes_and_fault_counts": dict(sorted(feats.items())),
        "findings": details,
        "rewriter": work.rewrite_report,
        "components": COMPONENTS_RT,
        "tree_hash": work.tree_hash,
        "seed_range": [seed0, seed0 + len(outcomes)],
    }
    write_evidence(prop, tier, seed, cfg["level"], cov, cfg["assumptions"], wall, n_new)
    log("%s %s: %d runs, %d distinct non-trivial, %d new violations, %d known findings, %.1fs" % (prop, tier, len(outcomes), len(distinct), n_new, n_known, wall))
    return 1 if n_new else 0


def replay(path):
    rf = json.load(open(path))
    prop = rf["property"]
    cfg = PROPS[prop]
    if cfg["engine"] != "rt":
        return __import__("orch_" + cfg["engine"]).replay(rf, path)
    work = Work()
    work.prepare()
    binary = work.build(cfg["pkg"], cfg["engine"], race=cfg["race"])
    if rf.get("history_seeds"):
        o = run_seeds(work, binary, prop, rf.get("tier", "quick"), rf["history_seeds"], "replay", rf.get("args"))
    else:
        o = run_tape(work, binary, prop, rf.get("tier", "quick"), {"seed": rf["seed"], "tape": rf["tape"]}, "replay", rf.get("args"))
    if o is None:
        raise Trouble("replay run failed")
    print(json.dumps({k: o.get(k) for k in ("digest", "diverged", "violations", "sample")}, indent=1)[:6000])
    if has(o, rf["rule"], rf["signature"]):
        same = "same digest" if o.get("digest") == rf.get("digest") else "digest differs (tree changed?)"
        print("VIOLATION property=%s replay=%s" % (prop, path))
        print("  reproduced rule=%s signature=%s (%s)" % (rf["rule"], rf["signature"], same))
        return 1
    print("not reproduced on this tree")
    return 0


def selftest_determinism(prop, nseeds):
    """n seeds x GOMAXPROCS {1,4,16} x worker counts {1,4,16} x 2 passes: digests and verdicts must agree."""
    cfg = PROPS[prop]
    work = Work()
    work.prepare()
    env0 = {}
    if cfg["engine"] == "gen" or (cfg["engine"] == "rtgen" and os.environ.get("VERIF_HALF") == "gen"):
        import orch_gen
        tools = orch_gen.build_tools(work)
        binary, specdir, _ = orch_gen.prepare_batch(work, tools, 4242, 12, cfg["race"], cfg.get("focus", ""))
        env0 = {"VERIF_SPEC_DIR": specdir, "VERIF_GEN_DIR": work.path("gen")}
    else:
        binary = work.build(cfg.get("pkg", "./engines/rt"), "rt", race=cfg["race"])
    bad = 0
    ref = {}
    execs = 0
    for gmp, jobs in (("1", 1), ("4", 4), ("16", 16)):
        for rep in range(2):
            outs = run_workers(work, binary, prop, "quick", 424242, nseeds, 900, cfg.get("args"), jobs=jobs, env_extra=dict(env0, GOMAXPROCS=gmp), keep_all=True)
            for o in outs.all:
                execs += 1
                k = o["seed"]
                # (the detail text of a violation class a process has already reported four times is blanked: verdicts are compared by rule and signature)
                d = (o["digest"], json.dumps(sorted((v["rule"], v["signature"]) for v in (o.get("violations") or []))))
                if k in ref and ref[k] != d:
                    bad += 1
                    print("NONDETERMINISTIC seed", k, ref[k][0], d[0])
                    if ref[k][0] == d[0]:
                        a, b = ref[k][1], d[1]
                        i = next((x for x in range(min(len(a), len(b))) if a[x] != b[x]), min(len(a), len(b)))
                        print("   same digest, verdicts differ at %d:\n   %s\n   %s" % (i, a[max(0, i - 200):i + 200], b[max(0, i - 200):i + 200]))
                ref.setdefault(k, d)
            log("GOMAXPROCS=%s workers=%d pass %d: %d runs, %d mismatches so far" % (gmp, jobs, rep, len(outs), bad))
    print("determinism %s: %d seeds, %d executions, %d mismatches" % (prop, len(ref), execs, bad))
    return 1 if bad else 0


def main(argv):
    if len(argv) < 2:
        print(__doc__)
        return 2
    try:
        if argv[0] == "replay":
            return replay(argv[1])
        if argv[0] == "selftest":
            return selftest_determinism(argv[2], int(argv[3]) if len(argv) > 3 else 60)
        prop, tier = argv[0], argv[1]
        seed = int(os.environ.get("VERIF_SEED", "1"))
        if prop not in PROPS:
            print("unknown property", prop)
            return 2
        eng = PROPS[prop]["engine"]
        if eng == "rt":
            return check_rt(prop, tier, seed)
        mod = __import__("orch_" + eng)
        return mod.check(prop, tier, seed)
    except Trouble as e:
        log("HARNESS TROUBLE:", e)
        return 2
