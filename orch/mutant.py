#!/usr/bin/env python3
"""Seeded-change driver.

  mutant.py adopt <agent-worktree> <id> <property> [demo-dir]   verify a sub-agent's change in a fresh scratch worktree
                                                     (builds, suite unchanged, demo fails with / passes without) and,
                                                     if confirmed, store it as /verif/seeded/<id>/
  mutant.py run <id> [PROP ...]                      apply /verif/seeded/<id>/patch.diff to a scratch worktree and run the
                                                     quick checks of its property (or the listed ones) against it
Nothing is ever applied to /repo itself.
"""
import json, os, shutil, subprocess, sys, time

VERIF = os.path.dirname(os.path.dirname(os.path.abspath(__file__)))
ENV = dict(os.environ, GOFLAGS="-mod=mod", GOPROXY="off", GOSUMDB="off", GOTOOLCHAIN="local")


def sh(cmd, cwd=None, timeout=3600, env=None):
    p = subprocess.run(cmd, cwd=cwd, env=env or ENV, shell=isinstance(cmd, str), stdout=subprocess.PIPE, stderr=subprocess.STDOUT, timeout=timeout)
    return p.returncode, p.stdout.decode("utf-8", "replace")


def worktree(tag):
    d = "/tmp/mv-%s-%d" % (tag, os.getpid())
    sh(["git", "-C", "/repo", "worktree", "remove", "--force", d])
    rc, out = sh(["git", "-C", "/repo", "worktree", "add", "--detach", d, "HEAD"])
    if rc != 0:
        raise SystemExit(out)
    return d


def drop(d):
    sh(["git", "-C", "/repo", "worktree", "remove", "--force", d])
    shutil.rmtree(d, ignore_errors=True)


def suite(d):
    """Returns the set of failing packages of go test ./... (excluding zz_demo)."""
    rc, out = sh("go list ./... | grep -v zz_demo | xargs go test -vet=off -count=1 2>&1 | grep -E '^(FAIL|ok|---)' | grep -E '^FAIL' | awk '{print $2}' | sort -u", cwd=d)
    failing = set(x for x in out.split() if x and x != "FAIL")
    # fixed-port tests (grpc/middleware/xray) collide when several suites run at once: retry alone before believing a failure
    for pkg in sorted(failing):
        if pkg.startswith("goa.design/") and pkg != "goa.design/goa/v3/grpc/codegen":
            rc, _ = sh(["go", "test", "-vet=off", "-count=1", pkg], cwd=d)
            if rc == 0:
                failing.discard(pkg)
    return failing


def adopt(src, mid, prop, demo_name="zz_demo"):
    demo = os.path.join(src, demo_name)
    patch = os.path.join(demo, "patch.diff")
    run = open(os.path.join(demo, "RUN.txt")).read().strip().splitlines()
    cmd = [l for l in run if l.strip() and not l.startswith("#")][-1]
    d = worktree(mid)
    log = {"id": mid, "property": prop, "source_worktree": src, "steps": []}
    try:
        shutil.copytree(demo, os.path.join(d, demo_name), ignore=shutil.ignore_patterns("patch.diff"))
        # demonstrations written by sub-agents mention their own worktree in scripts: point them at this one
        for dp, _, fs in os.walk(os.path.join(d, demo_name)):
            for f in fs:
                fp = os.path.join(dp, f)
                try:
                    txt = open(fp).read()
                except (UnicodeDecodeError, OSError):
                    continue
                if src in txt:
                    open(fp, "w").write(txt.replace(src, d))
        cmd_here = cmd.replace(src, d)
        rc0, out0 = sh(cmd_here, cwd=d)
        log["steps"].append({"cmd": cmd_here, "tree": "unchanged", "exit": rc0, "tail": out0[-600:]})
        rc, out = sh(["git", "apply", "--whitespace=nowarn", patch], cwd=d)
        if rc != 0:
            log["verdict"] = "patch does not apply to /repo HEAD: " + out[-400:]
            return log
        rcb, outb = sh("go build ./...", cwd=d)
        log["steps"].append({"cmd": "go build ./...", "tree": "changed", "exit": rcb, "tail": outb[-400:]})
        rc1, out1 = sh(cmd_here, cwd=d)
        log["steps"].append({"cmd": cmd_here, "tree": "changed", "exit": rc1, "tail": out1[-900:]})
        failing = suite(d)
        log["steps"].append({"cmd": "go test ./... (without zz_demo)", "tree": "changed", "failing_packages": sorted(failing)})
        ok = rc0 == 0 and rcb == 0 and rc1 != 0 and failing <= {"goa.design/goa/v3/grpc/codegen"}
        log["verdict"] = "confirmed" if ok else "rejected"
        if ok:
            dst = os.path.join(VERIF, "seeded", mid)
            shutil.rmtree(dst, ignore_errors=True)
            shutil.copytree(demo, dst)
            meta = {"id": mid, "breaks": prop, "demo_cmd": cmd.replace(src, "<worktree>"),
                    "confirmed": {"builds": True, "suite_failures_with_change": sorted(failing), "demo_passes_without": True, "demo_fails_with": True},
                    "what_ran": log["steps"], "needs": "", "detected_by": {}}
            json.dump(meta, open(os.path.join(dst, "meta.json"), "w"), indent=1)
        return log
    finally:
        drop(d)


def run(mid, props):
    dst = os.path.join(VERIF, "seeded", mid)
    meta = json.load(open(os.path.join(dst, "meta.json")))
    if not props:
        props = [meta["breaks"]]
    d = worktree(mid)
    res = {}
    try:
        rc, out = sh(["git", "apply", "--whitespace=nowarn", os.path.join(dst, "patch.diff")], cwd=d)
        if rc != 0:
            raise SystemExit("patch does not apply: " + out)
        for p in props:
            t0 = time.time()
            env = dict(ENV, VERIF_REPO=d, VERIF_SEED=os.environ.get("VERIF_SEED", "1"), VERIF_EVIDENCE_DIR="/tmp/mv-evidence", VERIF_REPLAY_DIR="/tmp/mv-replays")
            rc, out = sh([os.path.join(VERIF, "check"), p, os.environ.get("VERIF_TIER", "quick")], cwd=VERIF, env=env, timeout=7200)
            viol = [l for l in out.splitlines() if l.startswith("VIOLATION") or l.startswith("  rule=")]
            res[p] = {"exit": rc, "wall_s": round(time.time() - t0, 1), "lines": viol[:6]}
            print(mid, p, "exit", rc, "%.0fs" % (time.time() - t0))
            for l in viol[:6]:
                print("   ", l[:300])
            if rc == 2:
                print(out[-1500:])
    finally:
        drop(d)
    meta.setdefault("detected_by", {})
    for p, r in res.items():
        meta["detected_by"][p] = {"tier": os.environ.get("VERIF_TIER", "quick"), "seed": os.environ.get("VERIF_SEED", "1"), "exit": r["exit"], "wall_s": r["wall_s"], "report": r["lines"]}
    json.dump(meta, open(os.path.join(dst, "meta.json"), "w"), indent=1)
    return res


if __name__ == "__main__":
    if sys.argv[1] == "adopt":
        l = adopt(sys.argv[2], sys.argv[3], sys.argv[4], sys.argv[5] if len(sys.argv) > 5 else "zz_demo")
        print(json.dumps({k: v for k, v in l.items() if k != "steps"}, indent=1))
        for s in l["steps"]:
            print("  ", s.get("tree"), s.get("cmd", "")[:100], "exit", s.get("exit"), s.get("failing_packages", ""))
    elif sys.argv[1] == "run":
        run(sys.argv[2], sys.argv[3:])
