"""C20 has two halves: runtime helpers (RT engine) and generated servers (GEN engine), one check."""
import os, time
import orch, orch_gen
from orch import log


def check(prop, tier, seed):
    cfg = orch.PROPS[prop]
    t0 = time.time()
    work = orch.Work()
    work.prepare()
    quick = tier == "quick"
    # ---- runtime half
    binary = work.build("./engines/rt", "rt", race=True)
    total = cfg["quick_runs"] if quick else cfg["thorough_runs"]
    if os.environ.get("VERIF_RUNS"):
        total = int(os.environ["VERIF_RUNS"])
    budget = cfg["quick_budget"] if quick else cfg["thorough_budget"]
    budget = int(os.environ.get("VERIF_BUDGET", budget))  # seconds; for trying a tier out under a shorter wall-clock budget
    seed0 = seed * 1000003
    outs_rt = orch.run_workers(work, binary, prop, tier, seed0, total, budget / 2)
    n1, k1, det1 = orch.triage(work, binary, prop, tier, outs_rt)
    # ---- generated half (race build of the generated code)
    tools = orch_gen.build_tools(work)
    n_designs = cfg["quick_designs"] if quick else cfg["thorough_designs"]
    if os.environ.get("VERIF_DESIGNS"):
        n_designs = int(os.environ["VERIF_DESIGNS"])
    gruns = cfg["quick_gen_runs"] if quick else cfg["thorough_gen_runs"]
    if os.environ.get("VERIF_RUNS"):
        gruns = max(16, int(os.environ["VERIF_RUNS"]) // 4)
    bseed = seed * 100
    gbinary, specdir, stats = orch_gen.prepare_batch(work, tools, bseed, n_designs, True)
    env_extra = {"VERIF_SPEC_DIR": specdir, "VERIF_GEN_DIR": work.path("gen")}
    outs_gen = orch.run_workers(work, gbinary, prop, tier, bseed * 1000003, gruns, budget / 2, env_extra=env_extra)
    n2, k2, det2 = orch.triage(work, gbinary, prop, tier, outs_gen, env_extra=env_extra)
    import json
    for dd in det2:
        if dd.get("replay"):
            rf = json.load(open(dd["replay"]))
            rf["batch_seed"], rf["n_designs"], rf["half"] = bseed, n_designs, "gen"
            json.dump(rf, open(dd["replay"], "w"), indent=1)
    outcomes = outs_rt + outs_gen
    feats, distinct, sched, steps, sim_s, samples = orch.summarise(outcomes)
    f_rt, d_rt, s_rt, st_rt, _, smp_rt = orch.summarise(outs_rt)
    f_gen, d_gen, s_gen, st_gen, _, smp_gen = orch.summarise(outs_gen)
    wall = time.time() - t0
    cov = {
        "evaluations": feats.pop("_evaluations", 0) or len(outcomes),
        "runs": len(outcomes),
        "distinct_nontrivial": len(d_rt) + len(d_gen),
        "rule": cfg["rule"],
        "samples": (smp_rt[:2] + smp_gen[:2]),
        "exhaustive": False,
        "runs_per_hour": orch.seeds_per_hour(len(outcomes), wall),
        "scheduling_points": steps,
        "distinct_interleavings_by_schedule_hash": len(s_rt) + len(s_gen),
        "runtime_half": {"runs": len(outs_rt), "scheduling_points": st_rt, "probes": dict(sorted((k, v) for k, v in f_rt.items() if k != "_evaluations"))},
        "generated_half": {"runs": len(outs_gen), "scheduling_points": st_gen, "designs": {k: v for k, v in stats.items() if isinstance(v, int)}, "probes": dict(sorted((k, v) for k, v in f_gen.items() if k != "_evaluations"))},
        "simulated_seconds": round(sim_s, 3),
        "findings": det1 + det2,
        "rewriter": work.rewrite_report,
        "components": {"runtime_half": orch.COMPONENTS_RT, "generated_half": orch_gen.COMPONENTS_GEN},
        "tree_hash": work.tree_hash,
    }
    orch.write_evidence(prop, tier, seed, cfg["level"], cov, cfg["assumptions"], wall, n1 + n2)
    log("%s %s: %d runtime runs + %d generated-server runs over %d designs, %d new violations, %d known findings, %.1fs" % (prop, tier, len(outs_rt), len(outs_gen), stats.get("linked", 0), n1 + n2, k1 + k2, wall))
    return 1 if n1 + n2 else 0


def replay(rf, path):
    if rf.get("half") == "gen":
        return orch_gen.replay(rf, path)
    rf = dict(rf)
    cfg = orch.PROPS[rf["property"]]
    work = orch.Work()
    work.prepare()
    binary = work.build("./engines/rt", "rt", race=True)
    if rf.get("history_seeds"):
        o = orch.run_seeds(work, binary, rf["property"], rf.get("tier", "quick"), rf["history_seeds"], "replay")
    else:
        o = orch.run_tape(work, binary, rf["property"], rf.get("tier", "quick"), {"seed": rf["seed"], "tape": rf["tape"]}, "replay")
    if o is None:
        raise orch.Trouble("replay run failed")
    if orch.has(o, rf["rule"], rf["signature"]):
        print("VIOLATION property=%s replay=%s" % (rf["property"], path))
        return 1
    print("not reproduced on this tree")
    return 0
