#!/bin/sh
# regress.sh [ids...]  runs every seeded change (or the listed ones) against the quick check of the property it breaks
cd "$(dirname "$0")/.."
ids="$@"
[ -z "$ids" ] && ids=$(ls seeded)
for m in $ids; do
  python3 orch/mutant.py run $m 2>&1 | grep -E "^$m |VIOLATION" | head -3
done
