#!/bin/sh
# thorough_all.sh: the thorough tier of every claimed property on the unchanged tree, with its registered budget
cd "$(dirname "$0")/.."
export VERIF_EVIDENCE_DIR=/tmp/thorall-evidence VERIF_REPLAY_DIR=/tmp/thorall-replays
for p in C02 C03 C04 C05 C06 C08 C14 C13 C15 C16 C17 C19 C20 C09; do
  ./check $p thorough > /tmp/thorall-$p.log 2>&1; rc=$?
  echo "$p exit=$rc $(grep -E "^C[0-9]+ thorough:" /tmp/thorall-$p.log | tail -1)"
  grep -E "^VIOLATION|^  rule=|TROUBLE" /tmp/thorall-$p.log | head -8
done
