#!/usr/bin/env python3
"""mkprompts.py <dir> [ids...]: one scratch worktree of /repo and one prompt file per claimed property under <dir>
(outside /repo and /verif), for a wave of bug-seeding sub-agents. A sub-agent is started with nothing but
"Your complete task instructions are in the file <dir>/prompt-<ID>.txt ... Work only inside <dir>/<ID>": the prompt
carries the property's own text and the deliverable format orch/mutant.py adopt expects, and nothing from /verif
except the list of ideas earlier seeders already used (so that a wave does not repeat them)."""
import json, os, subprocess, sys

VERIF = os.path.dirname(os.path.dirname(os.path.abspath(__file__)))
TAKEN = {
    'C02': 'catch-all wildcard name table keyed without the method; json UseNumber in RequestDecoder; mapped array query params read under the attribute name; dropping query map params; query param whose name has a path wildcard name as prefix; RequestEncoder body aliasing a pooled buffer; removeAttributes deleting body attributes spelled like a mapped element name; default overwritten for unset non-string array params; unset alias-typed params arriving as pointer to zero; RequestEncoder dropping the body on GET/HEAD',
    'C03': 'response cookie matched by attribute name; omitempty on defaulted collections; PathEscape/QueryUnescape mismatch on cookies; UseNumber in ResponseDecoder; alias-level Default lost; one resp variable shared across client calls; string header default applied only when the key is absent; nested result type rendered with the parent\'s view name; Code() inside a function-only Response overwritten with 200',
    'C04': 'ip.To4 for ipv4/ipv6; client skipping validation of response cookies; pattern cache keyed by attribute name; dropping Required checks for nested collection elements; codegen.Walk skipping map keys; no client validation for collection-of-primitives bodies; ValidationExpr.Dup returning the receiver (Reference+override); json format via streaming decoder; MustValidate not set for optional validated params next to a validated body; exclusive maximum compared with >',
    'C05': 'Fault precedence in StatusCode; errors.As replaced by a type assertion; service-level error responses lost when re-declared on a method; same-type same-status errors decoded with the first decoder; ErrorEncoder writing a second response on encode failure; error name missing from goa-attribute headers for bodiless errors; MarshalXML swapping timeout/temporary; plain errors exposing Timeout() mapped to 504/408; API-level error response shadowing the service-level one',
    'C06': 'scheme dropped from later alternative requirements; copyReqs aliasing; stripping up to the last space; second scheme skipped when its optional credential is absent; only one credential wired to the implicit Authorization header; method-level Security losing to API-level; credential post-processing skipped for multipart; required scopes taken from the first requirement listing a scheme; prefix stripping skipped for custom-header credentials',
    'C08': 'projection memo keyed by the parent view; view override dropped for ArrayOf(ResultType); override back to default dropped; single-view fast paths leaking attributes; body view computation deleting header-mapped attributes from the type\'s views; per-method view variable not reset; type-level View meta winning over the parent view\'s override (views[0] vs Last); AppendHelpers keeping the last same-named helper',
    'C09': 'UUID examples from crypto/rand; SkipExist check moved; map iteration order leaking into openapi; temp files left in gen; wall-clock budget in the example loop; finalizing skipped example files; gen clean-up narrowed to current design\'s directories; date examples in local time zone; length-validated map examples built by ranging over a Go map; SkipExist dropped on the example service file',
    'C13': 'Dup visited-set recording the source attribute; hashObject hashing in declaration order; union alternatives order; Meta map order; ValidationExpr.Dup sharing the Required backing array; swapped ignore flags in hashMap; DupAttribute sharing an empty Meta map; Equal short-cut on equal type IDs; hashObject returning a constant marker for any seen object; DupType sharing primitive map KeyType',
    'C14': 'schema sharing by type name hash; dropping nested Required validation; maxLength off by one; collection default view projection skipped; ip.To4; literal fast path in ValidatePattern; cookie parameters documented under the attribute name; projected types keeping required names the view omits; pattern anchors stripped in schemas',
    'C15': 'text decoder aliasing a pooled buffer; pooled request buffers; text/* decoded as text; half-parsed Accept fallback; media type memoised by raw string; unparsable request Content-Type defaulting to JSON; honouring q=0 wrongly; ResponseDecoder not lower-casing the media type; unknown designed content type following Accept; not-found handler writing status before Content-Type',
    'C16': 'QueryUnescape instead of PathUnescape; wildcard table keyed by pattern only; SmartRedirectSlashes matching on the request context; pooled scratch context; off-by-one on the root catch-all; ResolvePattern memo keyed by decoded path; redirect Location built from the escaped path; Vars unescaping chi\'s value slice in place (double decode on second call); path constructor trimming a leading slash of catch-all values',
    'C17': 'pattern cache ring buffer; ip.To4; atomic last-pattern memo; cache keyed by name; literal fast path via LiteralPrefix; pooled scratch buffer in json format validation; netip.ParseAddr accepting zone suffixes; compile failures memoised by the regexp format validator; json format via Decoder+More (stray closer accepted); patterns rendered as raw literals losing CR',
    'C19': 'AppendToOutgoingContext instead of Set; header map lookup with a non-canonical name; capture counting len(b); span forwarded as trace; shared random buffer in shortID; shared discards backing array in trace options; ResponseCapture.ReadFrom not counting; truncation moved to a rune boundary; 1xx WriteHeader treated as final by ResponseCapture; empty trusted request id accepted',
    'C20': 'pooled chi scratch contexts; unsynchronised shared rand; Accept normalisation memo in atomics; ErrorEncoder captured formatter; StreamCanceler registry keyed by len; lazy regexp init in a sync.Map entry; NewErrorID slicing a shared refilled buffer; mutex removed from the adaptive sampler; NewErrorResponse writing an ID into the caller\'s shared error; websocket request builder writing the client-wide scheme',
}
TEMPLATE = '''You are helping evaluate a verification framework for the Go project goadesign/goa (a design-first framework: a DSL evaluates into an expression model, which generates HTTP/gRPC server, client and OpenAPI code). Your job is to act as a "bug seeder": produce TWO different realistic changes to goa's source, each of which breaks the semantic property quoted below while the code still compiles and the existing test suite still passes.

Your private scratch git worktree of the repository is {wt} (detached HEAD). Work ONLY inside it. Never touch /repo or /verif (do not read /verif either). The sandbox is offline; every shell command that runs go needs:
  export GOFLAGS=-mod=mod GOPROXY=off GOSUMDB=off GOTOOLCHAIN=local
(go1.23.5 is the toolchain; protoc is not installed, so a handful of tests in goa.design/goa/v3/grpc/codegen already fail on the unchanged tree - ignore exactly those.) The `goa` CLI can be built from the worktree (`go build -o {base}/{pid}-goa ./cmd/goa`) and `goa gen <design pkg> -o <dir>` works offline for HTTP-only designs whose design package lives inside the worktree module (e.g. under {wt}/zz_demo_1/design with import path goa.design/goa/v3/zz_demo_1/design). `goa example` output does not compile offline (needs goa.design/clue) - don't rely on it compiling. Use a private TMPDIR (e.g. {base}/{pid}-tmp) when you run the full test suite, other seeders run theirs at the same time.

THE PROPERTY (id {pid}):
{prop}

What I want from each of the two changes:
 * It is a change a real contributor could plausibly make (a refactor, an "optimisation", a cache, a reordering, an off-by-one, a mis-merged condition, a template edit...) - in goa's non-test source files (runtime packages, code generators, templates). No test files, golden files or testdata may be edited.
 * With the change applied: `go build ./...` succeeds and `go test -vet=off -count=1 ./...` has no failures other than the pre-existing protoc-related ones in grpc/codegen. (Many generator templates are pinned by golden files; changes in runtime packages, or in template branches the golden files do not exercise, are the usual way to stay under the radar. Run the FULL suite to confirm - it takes a few minutes.)
 * It breaks the property, but NOT in a way ordinary use would expose at once. It should need something specific to manifest: a particular interleaving of concurrent requests, a crash or I/O fault at a particular point, a multi-step sequence of operations, an unusual-but-legal input or design feature combination, or two cooperating edits that each look fine alone. Prefer subtle over blatant. The two changes should attack different mechanisms/files of the property.
 * A demonstration: a Go test or small program (plus any design package / generated code it needs) that PASSES on the unchanged tree and FAILS with the change applied, showing the property being violated through goa's real behaviour (e.g. generated client talking to generated server via httptest, or runtime package functions called directly).

Ideas that are ALREADY TAKEN by earlier seeders (do not reuse them or close variants; find different mechanisms, files and trigger conditions): {taken}.

Deliverables, for change k in {{1,2}}: a directory {wt}/zz_demo_k/ containing
   - patch.diff : the change as `git diff` output relative to HEAD, covering ONLY goa source files (not zz_demo_*). It must apply with `git apply` from the worktree root.
   - the demonstration files (anything generated that the demo needs should be committed into zz_demo_k too, or regenerated by the demo command itself),
   - RUN.txt : comment lines (starting with #) explaining in 5-15 lines what the change is, why it breaks the property, and exactly what is needed for it to manifest; the LAST line is the single shell command that runs the demonstration from the worktree root (exit 0 = property holds, non-zero = violated), e.g.  cd {wt} && GOFLAGS=-mod=mod GOPROXY=off GOSUMDB=off GOTOOLCHAIN=local go test -count=1 ./zz_demo_k/...
 When you are done, leave the worktree with NO modifications to goa source files (git checkout the sources; only the untracked zz_demo_1/ and zz_demo_2/ directories remain). Verify yourself, for each change: demo passes on clean tree; apply patch; go build ./... ok; demo fails; full suite passes apart from the protoc ones; unapply patch.

Clean up any other scratch files you create under /tmp. In your final message, give for each change: one paragraph on what it is, what it needs to manifest, and the verification results you observed. If you could only produce one solid change, say so rather than padding with a weak one.'''


def main():
    base = sys.argv[1]
    ids = sys.argv[2:] or sorted(TAKEN)
    props = {json.loads(l)['id']: json.loads(l) for l in open(os.path.join(VERIF, 'properties.jsonl'))}
    os.makedirs(base, exist_ok=True)
    for pid in ids:
        wt = os.path.join(base, pid)
        subprocess.run(['git', '-C', '/repo', 'worktree', 'add', '--detach', wt, 'HEAD'], stdout=subprocess.DEVNULL, stderr=subprocess.DEVNULL)
        open(os.path.join(base, 'prompt-%s.txt' % pid), 'w').write(TEMPLATE.format(wt=wt, base=base, pid=pid, prop=json.dumps(props[pid], indent=1), taken=TAKEN[pid]))
    # adopt-and-run helper
    open(os.path.join(base, 'ar.sh'), 'w').write('''#!/bin/sh
# ar.sh <prop> <id> <demo-dir> [extra props]
p=$1; id=$2; dd=$3; shift 3
cd %s
python3 orch/mutant.py adopt %s/$p $id $p $dd 2>&1 | grep -v WARNING | grep -E 'verdict|exit'
[ -d seeded/$id ] && python3 orch/mutant.py run $id "$@" 2>&1 | grep -v WARNING | tail -8
''' % (VERIF, base))
    os.chmod(os.path.join(base, 'ar.sh'), 0o755)
    print('prepared', len(ids), 'worktrees and prompts under', base)


if __name__ == '__main__':
    main()
