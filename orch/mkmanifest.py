#!/usr/bin/env python3
"""Regenerates /verif/MANIFEST.json from the property table in orch.py."""
import json, os, sys
sys.path.insert(0, os.path.dirname(os.path.abspath(__file__)))
import orch

NA = {
    "C01": "design -> code -> type-checks is a pure function of the design; no schedule, clock, fault or second party for a simulator to control (DESIGN.md section 6)",
    "C07": "relates two outputs of one deterministic translation of one input; nothing executes, communicates or can fail (DESIGN.md section 6)",
    "C10": "protoc and its Go plugins are not installed, so no gRPC system can be generated, built or run here; the remainder is static/pure (DESIGN.md section 6)",
    "C11": "sequential single-threaded pass structure over in-memory lists; no I/O, clock or concurrency (DESIGN.md section 6)",
    "C12": "quantifies over inputs to a pure sequential evaluator; deciding it is grammar fuzzing, not simulation (DESIGN.md section 6)",
    "C18": "algebraic laws of pure functions over in-memory values; no seam exists (DESIGN.md section 6)",
}
NOT_YET = "claimed in DESIGN.md but its check is not built yet in this tree; listed here until the check is registered"

TEXT = {
    "C15": ("exploration", "seeded simulation of encoder<->decoder exchanges over a simulated transport with chunking and cut faults; oracle: decode(announced type, body) == value",
            "samples the configuration x input space; no schedule dimension (DESIGN 5 C15: low simulator leverage)"),
    "C16": ("exploration", "seeded simulation of URL builder -> wire form -> muxer with registration histories and middleware call orders; reference router oracle",
            "samples pattern sets, histories and values; reference router is 60 lines, independent of chi"),
    "C17": ("exploration", "deterministic simulation: 1-16 tasks on the shared pattern cache under a seeded gated scheduler with the race detector; per-call model verdict",
            "seeded search over schedules and call histories; a clean batch is evidence, not proof"),
    "C19": ("exploration", "deterministic simulation of node chains (HTTP over SimNet, gRPC interceptors with a metadata hop) with simulated clock and entropy, interleaved by the gated scheduler; history oracle per hop",
            "seeded search over option combinations, inbound values, chain shapes and interleavings"),
    "C09": ("fault_enumeration", "deterministic simulation of generator invocation histories over one directory with disk-fault injection: crash points enumerated over a stated quotient of FaultFS operations, map order / clock / process perturbation per step; oracle: output equals the clean generation of the current design",
            "exhaustive only for the crash-point quotient; designs, histories and map orders are seeded search"),
    "C20": ("exploration", "deterministic simulation: concurrent clients against one mounted server / shared helpers under the seeded gated scheduler, race detector with TSan-blind gates, per-request echo oracle",
            "seeded search over interleavings at transport and synchronisation points; races between points are the detector's"),
}


def main():
    checks = []
    claimed = set()
    for pid in sorted(orch.PROPS):
        cfg = orch.PROPS[pid]
        level, technique, note = TEXT.get(pid, (cfg["level"], cfg.get("technique", "deterministic simulation with fault injection"), cfg.get("level_note", "")))
        claimed.add(pid)
        checks.append({
            "property_id": pid,
            "quick_cmd": "./check %s quick" % pid,
            "thorough_cmd": "./check %s thorough" % pid,
            "evidence_file": "evidence/%s.json" % pid,
            "replay_cmd_template": "./check replay {path}",
            "engine": cfg["engine"],
            "level_claimed": {"category": cfg["level"], "text": cfg.get("level_text", technique + ". " + note), "design_ref": "DESIGN.md section 5, " + pid},
            "level_note": "; ".join(cfg["assumptions"]),
            "technique": cfg.get("technique", technique),
        })
    na = []
    for i in range(1, 21):
        pid = "C%02d" % i
        if pid in claimed:
            continue
        na.append({"property_id": pid, "reason": NA.get(pid, NOT_YET)})
    m = {
        "version": 1,
        "setup_cmd": "./setup.sh",
        "hooks": {
            "guard": "none - seams are inserted into a scratch copy of /repo at check time by /verif/sim/cmd/simrewrite; /repo carries no hook code, only fix: commits",
            "enable": "./check <id> quick|thorough copies /repo's working tree to a scratch directory, rewrites it (map ranges, sync ops, clock, entropy, os file calls -> verifsim shims) and builds the engines against the rewritten copy",
            "baseline_off_cmd": "cd /repo && GOFLAGS=-mod=mod go test -vet=off -count=1 -timeout 25m ./...",
            "source_commits": [],
            "add_only": True,
        },
        "engines": [
            {"name": "rt", "path": "sim/engines/rt", "serves_properties": sorted(p for p in claimed if orch.PROPS[p]["engine"] in ("rt", "rtgen")),
             "kind_free_text": "goa runtime packages under the gated scheduler, SimNet, SimClock, SimRand, race detector"},
            {"name": "gen", "path": "sim/engines/gen", "serves_properties": sorted(p for p in claimed if orch.PROPS[p]["engine"] in ("gen", "rtgen")),
             "kind_free_text": "generated client <-> SimNet <-> generated server per seeded design, reference model from the design spec"},
            {"name": "dir", "path": "sim/engines/dir", "serves_properties": sorted(p for p in claimed if orch.PROPS[p]["engine"] == "dir"),
             "kind_free_text": "real goa CLI and generator processes over FaultFS and MapOrder on one output directory"},
        ],
        "checks": checks,
        "not_applicable": na,
        "notes": "see DESIGN.md; known findings in known_findings.jsonl",
    }
    json.dump(m, open(os.path.join(orch.VERIF, "MANIFEST.json"), "w"), indent=1)
    print("claimed:", sorted(claimed))


main()
