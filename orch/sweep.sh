#!/bin/sh
# sweep.sh <tier> <seeds...>: every claimed check on the unchanged tree, one summary line each (false-alarm hunt)
cd "$(dirname "$0")/.."
tier=$1; shift
export VERIF_EVIDENCE_DIR=/tmp/sweep-evidence VERIF_REPLAY_DIR=/tmp/sweep-replays
for s in "$@"; do
  for p in C02 C03 C04 C05 C06 C08 C14 C13 C15 C16 C17 C19 C20 C09; do
    VERIF_SEED=$s ./check $p $tier > /tmp/sweep-$p-$s.log 2>&1; rc=$?
    echo "seed=$s $p exit=$rc $(grep -E "^C[0-9]+ $tier:" /tmp/sweep-$p-$s.log | tail -1)"
    grep -E "^VIOLATION|^  rule=|TROUBLE" /tmp/sweep-$p-$s.log | head -6
  done
done
