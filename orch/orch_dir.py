"""DIR engine (C09): the real goa CLI and the generator binary it compiles and runs, built from the rewritten
scratch copy, over one output directory through FaultFS and MapOrder (DESIGN.md section 5, C09).

One step = one process. A history is a list of steps over one output directory:
  gen | example | user-edit | design-edit | crashed-gen@n[:torn] | failed-gen@n | crashed-cleanup
Every step gets its own map-order mode/seed and clock origin through the environment.
"""
import hashlib, json, os, random, shutil, subprocess, time
from concurrent.futures import ThreadPoolExecutor
import orch
from orch import sh, log, Trouble, GOENV, SIM, NCPU

DESIGN_GO = '''package design

import (
	_ "embed"

	_ "goa.design/goa/v3/dsl" // lets the goa tool detect the major version
	"verif/sim/dslbuild"
)

//go:embed spec.json
var specJSON []byte

var _ = dslbuild.MustBuildJSON(specJSON)
'''


class Ctx:
    def __init__(self, work, goa, specs):
        self.work, self.goa, self.specs = work, goa, specs  # specs: list of JSON strings
        self.refs = {}
        self.n_steps = 0
        self.fault_counts = {}
        self.seq = 0

    def module(self, tag):
        self.seq += 1
        d = self.work.path("m-%s-%d" % (tag, self.seq))
        os.makedirs(os.path.join(d, "design"))
        open(os.path.join(d, "go.mod"), "w").write(
            "module verifdesign\n\ngo 1.23\n\nrequire (\n\tgoa.design/goa/v3 v3.0.0\n\tverif/sim v0.0.0\n)\n\nreplace goa.design/goa/v3 => %s\n\nreplace verif/sim => %s\n" % (self.work.repo, SIM))
        shutil.copy(os.path.join(SIM, "go.sum"), os.path.join(d, "go.sum"))
        open(os.path.join(d, "design", "design.go"), "w").write(DESIGN_GO)
        return d

    def set_spec(self, mod, i):
        open(os.path.join(mod, "design", "spec.json"), "w").write(self.specs[i])

    def run(self, mod, cmd, env_extra, timeout=240):
        self.n_steps += 1
        env = dict(GOENV)
        env.update(env_extra)
        p = subprocess.run([self.goa, cmd, "verifdesign/design", "-o", "o"], cwd=mod, env=env, stdout=subprocess.PIPE, stderr=subprocess.STDOUT, timeout=timeout)
        return p.returncode, p.stdout.decode("utf-8", "replace")


def tree(root, sub=""):
    out = {}
    base = os.path.join(root, sub)
    for d, dirs, files in os.walk(base):
        dirs.sort()
        for f in sorted(files):
            p = os.path.join(d, f)
            try:
                st = os.stat(p)
                with open(p, "rb") as fh:
                    out[os.path.relpath(p, root)] = (hashlib.sha256(fh.read()).hexdigest(), st.st_mtime_ns)
            except OSError:
                pass
    return out


def hashes(t):
    return {k: v[0] for k, v in t.items()}


def step_env(step, outdir):
    env = {}
    if step.get("maporder"):
        env["VERIFSIM_MAPORDER"] = step["maporder"]
    if step.get("clock"):
        # origin : jitter seed - the simulated clock moves on by a seeded 0-2 ms per reading, differently in every step
        import zlib
        env["VERIFSIM_CLOCK"] = "%d:%d" % (step["clock"], 1 + zlib.crc32(repr((step.get("maporder") or "", step.get("hashseed") or 0, step["clock"])).encode()))
    if step.get("fault"):
        env["VERIFSIM_FAULTFS"] = step["fault"]
        env["VERIFSIM_FAULTFS_ROOT"] = outdir
    if step.get("hashseed"):
        env["GOMAXPROCS"] = str(1 + step["hashseed"] % 4)
        # the process environment is no input of code generation either: time zone, locale, home directory
        env["TZ"] = ["UTC", "Asia/Tokyo", "America/New_York", "Australia/Lord_Howe"][step["hashseed"] % 4]
        env["LANG"] = ["C", "en_US.UTF-8", "tr_TR.UTF-8"][step["hashseed"] % 3]
    return env


def reference(ctx, i):
    """Clean generation of spec i into an empty directory under sorted map order."""
    if i in ctx.refs:
        return ctx.refs[i]
    mod = ctx.module("ref%d" % i)
    ctx.set_spec(mod, i)
    rc, out = ctx.run(mod, "gen", {"VERIFSIM_MAPORDER": "sorted", "VERIFSIM_CLOCK": "1700000000"})
    ref = None
    if rc == 0:
        ref = hashes(tree(os.path.join(mod, "o"), "gen"))
    ctx.refs[i] = (ref, out[-800:])
    if ref is not None:
        ctx.refs[(i, "dir")] = mod
    return ctx.refs[i]


def diff_trees(ref, got):
    """Returns a short description of the first differences, or None."""
    missing = sorted(set(ref) - set(got))
    extra = sorted(set(got) - set(ref))
    changed = sorted(k for k in ref if k in got and ref[k] != got[k])
    if not (missing or extra or changed):
        return None
    return {"missing": missing[:5], "extra": extra[:5], "changed": changed[:5]}


def run_history(ctx, hist, tag):
    """Executes a history; returns list of violations (rule, signature, detail)."""
    viol = []
    mod = ctx.module(tag)
    cur = hist["spec"]
    ctx.set_spec(mod, cur)
    outdir = os.path.join(mod, "o")
    shape = []
    last_gen_ok = False
    for si, st in enumerate(hist["steps"]):
        kind = st["kind"]
        shape.append(kind)
        before = tree(outdir) if os.path.isdir(outdir) else {}
        if kind == "design-edit":
            cur = st["spec"]
            ctx.set_spec(mod, cur)
            continue
        if kind == "user-edit":
            # touch a file where `example` writes (or would write): content and mtime are recorded by the next step's snapshot
            cands = [k for k in before if not k.startswith("gen/")] or ["cmd/user/main.go"]
            target = os.path.join(outdir, cands[st.get("pick", 0) % len(cands)])
            os.makedirs(os.path.dirname(target), exist_ok=True)
            how = st.get("how", "append")
            if how == "truncate":
                open(target, "w").close()  # the user emptied the file (or an editor crashed while saving it)
            elif how == "replace":
                with open(target, "w") as fh:
                    fh.write("package main\n\n// rewritten by the user at step %d\n" % si)
            else:
                with open(target, "a") as fh:
                    fh.write("\n// user edit %d\n" % si)
            ctx.fault_counts["user_edit_" + how] = ctx.fault_counts.get("user_edit_" + how, 0) + 1
            os.utime(target, ns=(1600000000 * 10**9 + si, 1600000000 * 10**9 + si))
            continue
        if kind == "crashed-cleanup":
            # a gen that died while wiping gen/*: a tape-chosen subset of the files is gone
            rnd = random.Random(st.get("pick", 0))
            for k in sorted(before):
                if k.startswith("gen/") and rnd.random() < 0.5:
                    try:
                        os.unlink(os.path.join(outdir, k))
                    except OSError:
                        pass
            ctx.fault_counts["crashed_cleanup"] = ctx.fault_counts.get("crashed_cleanup", 0) + 1
            continue
        cmd = "example" if kind == "example" else "gen"
        env = step_env(st, outdir)
        rc, out = ctx.run(mod, cmd, env)
        after = tree(outdir) if os.path.isdir(outdir) else {}
        if st.get("fault"):
            fk = st["fault"].split("@")[0] + (":torn" if "torn" in st["fault"] else "")
            if rc != 0:
                ctx.fault_counts[fk + "_fired"] = ctx.fault_counts.get(fk + "_fired", 0) + 1
            else:
                ctx.fault_counts[fk + "_beyond_last_op"] = ctx.fault_counts.get(fk + "_beyond_last_op", 0) + 1
        if kind == "example":
            # (3) the example command never modifies a file that already exists
            for k, v in before.items():
                if k not in after:
                    viol.append(("example_removed_file", "example_removed:" + kindof(k), "step %d (%s): %s existed before `goa example` and is gone" % (si, "/".join(shape), k)))
                    break
                if after[k] != v:
                    what = "content" if after[k][0] != v[0] else "mtime"
                    viol.append(("example_modified_existing_file", "example_modified:" + what + ":" + kindof(k), "step %d (%s): `goa example` changed the %s of the existing file %s" % (si, "/".join(shape), what, k)))
                    break
            if rc != 0 and not st.get("fault"):
                viol.append(("example_failed", "example_failed", "step %d: goa example failed: %s" % (si, out[-600:])))
            continue
        # gen (possibly faulted)
        if rc != 0:
            if not st.get("fault"):
                viol.append(("gen_failed", "gen_failed:" + "/".join(shape[-3:]), "step %d (%s): goa gen failed on a directory left by earlier steps: %s" % (si, "/".join(shape), out[-800:])))
            continue
        ref, refout = reference(ctx, cur)
        if ref is None:
            continue  # design not generatable at all: not a history matter
        # (1)+(2): list and bytes equal to a clean generation of the current design
        d = diff_trees(ref, hashes({k: v for k, v in after.items() if k.startswith("gen/")}))
        if d:
            cls = "stale-or-extra" if d["extra"] else ("missing" if d["missing"] else "content")
            first = (d["extra"] or d["missing"] or d["changed"])[0]
            prev = [s for s in shape[:-1]]
            viol.append(("gen_not_a_function_of_the_design", "gen_differs:%s:%s" % (cls, kindof(first)),
                         "step %d (%s, maporder=%s clock=%s): the gen output differs from a clean generation of the same design: %s" % (si, "/".join(shape), st.get("maporder"), st.get("clock"), json.dumps(d))))
        # (4) gen leaves everything outside gen/ untouched
        for k, v in before.items():
            if not k.startswith("gen/") and after.get(k) != v:
                viol.append(("gen_touched_example_file", "gen_touched:" + kindof(k), "step %d (%s): `goa gen` changed %s outside gen/" % (si, "/".join(shape), k)))
                break
    if not os.environ.get("VERIF_KEEP"):
        shutil.rmtree(mod, ignore_errors=True)
    return viol


def kindof(path):
    """File class: openapi.json, client/encode_decode.go, ... (design-specific names removed)."""
    parts = path.split("/")
    base = parts[-1]
    if base.startswith("temp.") and base.endswith(".go"):
        base = "temp.*.go"  # os.CreateTemp picks a fresh random infix in every process
    if len(parts) >= 2 and parts[-2] in ("client", "server", "views", "cli"):
        return parts[-2] + "/" + base
    return base


def gen_history(rnd, n_specs, crash_ops):
    spec = rnd.randrange(n_specs)
    steps = []
    n = 2 + rnd.randrange(5)
    for i in range(n):
        k = rnd.choices(["gen", "example", "user-edit", "design-edit", "crashed-gen", "failed-gen", "crashed-cleanup", "crashed-example"], [6, 3, 3, 2, 3, 1, 1, 1])[0]
        st = {"kind": k}
        if k == "crashed-example":
            # `goa example` dying part-way: whatever it left (whole, empty or torn files) now "exists"
            st = {"kind": "example", "label": "crashed-example", "fault": "crash@%d" % rnd.randrange(1, 120) + (":torn=%d" % rnd.randrange(1000) if rnd.random() < 0.5 else "")}
            k = "example"
        if k == "user-edit":
            st["how"] = rnd.choices(["append", "truncate", "replace"], [3, 2, 1])[0]
        if k in ("gen", "crashed-gen", "failed-gen", "example"):
            st["maporder"] = rnd.choice(["sorted", "reverse", "seed:%d" % rnd.randrange(1 << 30), "seed:%d" % rnd.randrange(1 << 30), ""])
            st["clock"] = rnd.choice([0, 1700000000, 946684800, 4102444800])
            st["hashseed"] = rnd.randrange(1 << 16)
        if k == "crashed-gen":
            at = rnd.choice(crash_ops) if crash_ops and rnd.random() < 0.7 else rnd.randrange(30000)
            st["fault"] = "crash@%d" % at + (":torn=%d" % rnd.randrange(1000) if rnd.random() < 0.4 else "")
            st["kind"] = "gen"
            st["label"] = "crashed-gen"
        if k == "failed-gen":
            st["fault"] = "err@%d:%s" % (rnd.choice(crash_ops) if crash_ops else rnd.randrange(30000), rnd.choice(["ENOSPC", "EIO"]))
            st["kind"] = "gen"
            st["label"] = "failed-gen"
        if k == "design-edit":
            st["spec"] = rnd.randrange(n_specs)
        if k in ("user-edit", "crashed-cleanup"):
            st["pick"] = rnd.randrange(1 << 16)
        steps.append(st)
    if not any(s["kind"] == "gen" and not s.get("fault") for s in steps):
        steps.append({"kind": "gen", "maporder": "seed:%d" % rnd.randrange(1 << 30), "clock": 1700000000})
    return {"spec": spec, "steps": steps}


def crash_quotient(ops):
    """ops: list of (n, op, path, size). Every non-write operation, and for every maximal run of writes to one
    file its first, last and three middle writes."""
    pts = []
    i = 0
    while i < len(ops):
        n, op, path, size = ops[i]
        if op != "write":
            pts.append((n, False))
            i += 1
            continue
        j = i
        while j + 1 < len(ops) and ops[j + 1][1] == "write" and ops[j + 1][2] == path:
            j += 1
        run = [ops[k][0] for k in range(i, j + 1)]
        pick = {run[0], run[-1], run[len(run) // 4], run[len(run) // 2], run[3 * len(run) // 4]}
        for n2 in sorted(pick):
            pts.append((n2, False))
            pts.append((n2, True))
        i = j + 1
    return pts


def check(prop, tier, seed):
    cfg = orch.PROPS[prop]
    t0 = time.time()
    work = orch.Work()
    work.prepare()
    sh(["go", "build", "-o", work.path("goa"), "./cmd/goa"], cwd=work.repo, timeout=900)
    designgen = work.build("./cmd/designgen", "designgen", race=False)
    quick = tier == "quick"
    n_specs = 3 if quick else 10
    specdir = work.path("specs")
    sh([designgen, "-seed", str(seed * 100 + 7), "-n", str(n_specs * 3), "-out", specdir, "-focus", "dir"])
    ctx = Ctx(work, work.path("goa"), [])
    # keep specs goa can generate
    cands = [open(os.path.join(specdir, "d%d.json" % i)).read() for i in range(n_specs * 3)]
    ctx.specs = cands
    good = []
    with ThreadPoolExecutor(max_workers=NCPU) as ex:
        res = list(ex.map(lambda i: reference(ctx, i), range(len(cands))))
    if os.environ.get("VERIF_WARM"):
        return 0  # setup.sh: the reference generations above have compiled what every later step shares
    dropped = 0
    for i, (ref, out) in enumerate(res):
        if ref is not None and len(good) < n_specs:
            good.append(i)
        elif ref is None:
            dropped += 1
    if not good:
        raise Trouble("no design could be generated: " + res[0][1])
    # renumber
    ctx.specs = [cands[i] for i in good]
    refs = {k: ctx.refs[i] for k, i in enumerate(good)}
    ctx.refs = refs
    n_specs = len(ctx.specs)
    violations = []
    samples = []
    evals = 0
    distinct = set()
    # ---- A. determinism experiments: same design, fresh directory, other map orders / clocks / processes
    exps = []
    for i in range(n_specs):
        for k in range(4 if quick else 12):
            mo = ["reverse", "seed:%d" % (seed * 7919 + k), "seed:%d" % (seed * 104729 + k * 31), ""][k % 4] if k < 4 else "seed:%d" % (seed * 1299709 + k)
            exps.append({"spec": i, "steps": [{"kind": "gen", "maporder": mo, "clock": [0, 946684800, 4102444800][k % 3], "hashseed": k}]})
    # ---- B. histories
    rnd = random.Random(seed)
    # op log of a clean gen of spec 0, for crash placement
    mod = ctx.module("oplog")
    ctx.set_spec(mod, 0)
    oplog = work.path("ops.log")
    ctx.run(mod, "gen", {"VERIFSIM_FAULTFS_LOG": oplog, "VERIFSIM_FAULTFS_ROOT": os.path.join(mod, "o"), "VERIFSIM_MAPORDER": "sorted"})
    ops = []
    for l in open(oplog):
        p = l.split(" ")
        if len(p) >= 4:
            ops.append((int(p[0]), p[1], p[2], int(p[3])))
    # the log interleaves the CLI and the generator process; number within the generator is what crash@n counts
    pts = crash_quotient(ops)
    crash_ops = [n for n, _ in pts]
    n_hist = cfg["quick_histories"] if quick else cfg["thorough_histories"]
    if os.environ.get("VERIF_RUNS"):
        n_hist = int(os.environ["VERIF_RUNS"])
    hists = [gen_history(rnd, n_specs, crash_ops) for _ in range(n_hist)]
    # the "example never modifies a file that already exists" clause does not hang on the draw: for every design,
    # gen; example; <the user appends to / empties / replaces each of a few example files>; example - and the
    # same after an example run that died at a few points
    for i in range(n_specs):
        for how in ("append", "truncate", "replace"):
            for pick in range(3 if quick else 8):
                hists.append({"spec": i, "steps": [{"kind": "gen", "maporder": "sorted", "clock": 1700000000}, {"kind": "example", "maporder": "reverse", "clock": 946684800},
                                                   {"kind": "user-edit", "how": how, "pick": pick}, {"kind": "example", "maporder": "seed:%d" % (seed * 31 + pick), "clock": 4102444800, "hashseed": pick}]})
        for at in ((3, 17, 40, 77) if quick else range(2, 120, 6)):
            hists.append({"spec": i, "steps": [{"kind": "gen", "maporder": "sorted", "clock": 1700000000},
                                               {"kind": "example", "label": "crashed-example", "fault": "crash@%d" % at, "maporder": "sorted", "clock": 1700000000},
                                               {"kind": "example", "maporder": "reverse", "clock": 946684800}]})
    # ---- C. crash-point enumeration over the stated quotient, spec 0: crashed-gen@n ; gen
    enum = []
    n_enum_specs = 1 if quick else min(n_specs, 10)
    sel = pts
    if quick and len(pts) > cfg["quick_crash_points"]:
        step = len(pts) / float(cfg["quick_crash_points"])
        sel = [pts[int(i * step)] for i in range(cfg["quick_crash_points"])]
    for si in range(n_enum_specs):
        for n, torn in sel:
            f = "crash@%d" % n + (":torn=%d" % (300 + (n * 37) % 400) if torn else "")
            enum.append({"spec": si, "steps": [{"kind": "gen", "maporder": "sorted", "clock": 1700000000},
                                                {"kind": "gen", "fault": f, "label": "crashed-gen", "maporder": "seed:%d" % n, "clock": 0},
                                                {"kind": "gen", "maporder": "seed:%d" % (n + 1), "clock": 946684800}]})
    all_h = [("det", h) for h in exps] + [("hist", h) for h in hists] + [("crash", h) for h in enum]
    budget = cfg["quick_budget"] if quick else cfg["thorough_budget"]
    budget = int(os.environ.get("VERIF_BUDGET", budget))  # seconds; for trying a tier out under a shorter wall-clock budget
    t_end = time.time() + budget

    def one(ix):
        cls, h = all_h[ix]
        if time.time() > t_end:
            return ix, None
        try:
            return ix, run_history(ctx, h, "%s%d" % (cls, ix))
        except subprocess.TimeoutExpired:
            return ix, [("harness_timeout", "harness_timeout", "step timed out")]

    done = 0
    with ThreadPoolExecutor(max_workers=NCPU) as ex:
        for ix, v in ex.map(one, range(len(all_h))):
            if v is None:
                continue
            done += 1
            cls, h = all_h[ix]
            evals += 1
            shape = "/".join((s.get("label") or s["kind"]) + (":" + (s.get("maporder") or "runtime").split(":")[0] if s["kind"] in ("gen", "example") else "") for s in h["steps"])
            distinct.add((cls, h["spec"], shape if cls != "crash" else h["steps"][1]["fault"]))
            if len(samples) < 4 and cls in ("hist", "crash") and (len(samples) < 2 or cls == "crash"):
                samples.append({"class": cls, "history": h})
            for (rule, sig, detail) in v:
                violations.append((rule, sig, detail, cls, h))
    if any(v[0] == "harness_timeout" for v in violations):
        raise Trouble("a goa invocation timed out")
    skipped = len(all_h) - done
    # ---- triage
    ks = orch.load_known()
    n_new = n_known = 0
    details = []
    seen = set()
    for rule, sig, detail, cls, h in violations:
        if (rule, sig) in seen:
            continue
        seen.add((rule, sig))
        k = orch.known_match(ks, prop, rule, sig)
        occ = sum(1 for v in violations if v[0] == rule and v[1] == sig)
        if k:
            print("KNOWN-FINDING: property=%s %s [rule=%s signature=%s, %d occurrences]" % (prop, k["what"], rule, sig, occ), flush=True)
            n_known += 1
            details.append({"rule": rule, "signature": sig, "known": True, "occurrences": occ})
            continue
        # minimise: drop steps while the same (rule, signature) fails; then confirm by a fresh execution
        hmin = h
        if n_new < 2 and len(h["steps"]) > 1 and not os.environ.get("VERIF_NOMIN"):
            hmin = minimise_history(ctx, h, rule, sig)
        again = run_history(ctx, hmin, "verify")
        if not any(r == rule and s == sig for r, s, _ in again):
            again = run_history(ctx, h, "verify-o")
            hmin = h
            if not any(r == rule and s == sig for r, s, _ in again):
                log("UNREPRODUCIBLE (not reported):", rule, sig, detail[:300])
                details.append({"unreproducible": rule + " " + sig})
                continue
        rpdir = os.environ.get("VERIF_REPLAY_DIR", os.path.join(orch.VERIF, "replays"))
        os.makedirs(rpdir, exist_ok=True)
        rp = os.path.join(rpdir, "%s-%d-%s.json" % (prop, seed, hashlib.sha1((rule + sig).encode()).hexdigest()[:8]))
        used = sorted({hmin["spec"]} | {s["spec"] for s in hmin["steps"] if s["kind"] == "design-edit"})
        json.dump({"property": prop, "engine": "dir", "tier": tier, "rule": rule, "signature": sig, "detail": [d for r, s, d in again if r == rule and s == sig][0],
                   "seed": seed, "tree_hash": work.tree_hash, "history": hmin, "original_steps": len(h["steps"]), "minimised_steps": len(hmin["steps"]),
                   "specs": {str(i): json.loads(ctx.specs[i]) for i in used}}, open(rp, "w"), indent=1)
        print("VIOLATION property=%s replay=%s" % (prop, rp), flush=True)
        print("  rule=%s signature=%s steps=%d->%d\n  %s" % (rule, sig, len(h["steps"]), len(hmin["steps"]), detail[:1200]), flush=True)
        n_new += 1
        details.append({"rule": rule, "signature": sig, "known": False, "occurrences": occ, "replay": rp})
    wall = time.time() - t0
    full = not quick or len(sel) == len(pts)
    cov = {
        "evaluations": evals,
        "distinct_nontrivial": len(distinct),
        "rule": cfg["rule"],
        "samples": samples,
        "exhaustive": bool(full and skipped == 0),
        "exhaustive_note": "exhaustive only for the stated crash-point quotient (every non-write FaultFS operation; first, last and three middle writes of every maximal run of writes to one file, each with and without tearing) on %d design(s); designs, histories and map orders are seeded search" % n_enum_specs if full else "crash points: %d of the %d points of the quotient (evenly spaced) in the quick tier; the thorough tier enumerates all" % (len(sel), len(pts)),
        "goa_invocations": ctx.n_steps,
        "invocations_per_hour": orch.seeds_per_hour(ctx.n_steps, wall),
        "histories": {"determinism_experiments": len(exps), "random_histories": len(hists), "crash_enumeration": len(enum), "not_run_budget": skipped},
        "faultfs_operations_per_gen": {"total": len(ops), "writes": sum(1 for o in ops if o[1] == "write"), "quotient_points": len(pts)},
        "faults_fired": dict(sorted(ctx.fault_counts.items())),
        "designs": {"used": n_specs, "dropped_not_generatable": dropped},
        "findings": details,
        "rewriter": work.rewrite_report,
        "components": {"real": ["the goa CLI binary (cmd/goa) built from the rewritten scratch copy", "the generator program the CLI writes, compiles and runs (go build)",
                                "goa DSL/eval/expr/codegen, run through a design package that calls the public DSL", "the host file system (tmpfs)"],
                       "stub": ["disk fault device (FaultFS shims on the os.* calls of codegen, codegen/generator, cmd/goa)", "map iteration order (MapOrder shim on every ordered-key map range)", "clock (VERIFSIM_CLOCK)"]},
        "tree_hash": work.tree_hash,
    }
    orch.write_evidence(prop, tier, seed, cfg["level"], cov, cfg["assumptions"], wall, n_new)
    log("%s %s: %d histories (%d goa invocations), %d new violations, %d known findings, %.1fs" % (prop, tier, evals, ctx.n_steps, n_new, n_known, wall))
    return 1 if n_new else 0


def minimise_history(ctx, h, rule, sig, max_tries=12):
    cur = json.loads(json.dumps(h))
    tries = 0
    i = 0
    while i < len(cur["steps"]) and tries < max_tries:
        if len(cur["steps"]) <= 1:
            break
        cand = json.loads(json.dumps(cur))
        del cand["steps"][i]
        tries += 1
        v = run_history(ctx, cand, "min")
        if any(r == rule and s == sig for r, s, _ in v):
            cur = cand
        else:
            i += 1
    return cur


def replay(rf, path):
    work = orch.Work()
    work.prepare()
    sh(["go", "build", "-o", work.path("goa"), "./cmd/goa"], cwd=work.repo, timeout=900)
    n = max(int(k) for k in rf["specs"]) + 1
    specs = ["{}"] * n
    for k, v in rf["specs"].items():
        specs[int(k)] = json.dumps(v)
    ctx = Ctx(work, work.path("goa"), specs)
    v = run_history(ctx, rf["history"], "replay")
    for r, s, d in v:
        print(" ", r, s, d[:400])
    if any(r == rf["rule"] and s == rf["signature"] for r, s, _ in v):
        print("VIOLATION property=%s replay=%s" % (rf["property"], path))
        return 1
    print("not reproduced on this tree")
    return 0
