#!/bin/sh
# short thorough runs (budget 240 s) of every property on the unchanged tree
cd "$(dirname "$0")/.."
export VERIF_EVIDENCE_DIR=/tmp/thor-evidence VERIF_REPLAY_DIR=/tmp/thor-replays VERIF_BUDGET=240
for p in C02 C03 C04 C05 C06 C08 C14 C13 C15 C16 C17 C19 C20 C09; do
  ./check $p thorough > /tmp/thor-$p.log 2>&1; rc=$?
  echo "$p exit=$rc $(grep -E "^C[0-9]+ thorough:" /tmp/thor-$p.log | tail -1)"
  grep -E "^VIOLATION|^  rule=|TROUBLE" /tmp/thor-$p.log | head -6
done
